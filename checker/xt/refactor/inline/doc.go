// Copyright 2023 The Go Authors. All rights reserved.
// Use of this source code is governed by a BSD-style
// license that can be found in the LICENSE file.

/*
Package inline implements inlining of Go function calls.

The client provides information about the caller and callee,
including the source text, syntax tree, and type information, and
the inliner returns the modified source file for the caller, or an
error if the inlining operation is invalid (for example because the
function body refers to names that are inaccessible to the caller).

Although this interface demands more information from the client
than might seem necessary, it enables smoother integration with
existing batch and interactive tools that have their own ways of
managing the processes of reading, parsing, and type-checking
packages. In particular, this package does not assume that the
caller and callee belong to the same token.FileSet or
types.Importer realms.

There are many aspects to a function call. It is the only construct
that can simultaneously bind multiple variables of different
explicit types, with implicit assignment conversions. (Neither var
nor := declarations can do that.) It defines the scope of control
labels, of return statements, and of defer statements. Arguments
and results of function calls may be tuples even though tuples are
not first-class values in Go, and a tuple-valued call expression
may be "spread" across the argument list of a call or the operands
of a return statement. All these unique features mean that in the
general case, not everything that can be expressed by a function
call can be expressed without one.

So, in general, inlining consists of modifying a function or method
call expression f(a1, ..., an) so that the name of the function f
is replaced ("literalized") by a literal copy of the function
declaration, with free identifiers suitably modified to use the
locally appropriate identifiers or perhaps constant argument
values.

Inlining must not change the semantics of the call. Semantics
preservation is crucial for clients such as codebase maintenance
tools that automatically inline all calls to designated functions
on a large scale. Such tools must not introduce subtle behavior
changes. (Fully inlining a call is dynamically observable using
reflection over the call stack, but this exception to the rule is
explicitly allowed.)

In many cases it is possible to entirely replace ("reduce") the
call by a copy of the function's body in which parameters have been
replaced by arguments. The inliner supports a number of reduction
strategies, and we expect this set to grow. Nonetheless, sound
reduction is surprisingly tricky.

The inliner is in some ways like an optimizing compiler. A compiler
is considered correct if it doesn't change the meaning of the
program in translation from source language to target language. An
optimizing compiler exploits the particulars of the input to
generate better code, where "better" usually means more efficient.
When a case is found in which it emits suboptimal code, the
compiler is improved to recognize more cases, or more rules, and
more exceptions to rules; this process has no end. Inlining is
similar except that "better" code means tidier code. The baseline
translation (literalization) is correct, but there are endless
rules--and exceptions to rules--by which the output can be
improved.

The following section lists some of the challenges, and ways in
which they can be addressed.

  - All effects of the call argument expressions must be preserved,
    both in their number (they must not be eliminated or repeated),
    and in their order (both with respect to other arguments, and any
    effects in the callee function).

    This must be the case even if the corresponding parameters are
    never referenced, are referenced multiple times, referenced in
    a different order from the arguments, or referenced within a
    nested function that may be executed an arbitrary number of
    times.

    Currently, parameter replacement is not applied to arguments
    with effects, but with further analysis of the sequence of
    strict effects within the callee we could relax this constraint.

  - When not all parameters can be substituted by their arguments
    (e.g. due to possible effects), if the call appears in a
    statement context, the inliner may introduce a var declaration
    that declares the parameter variables (with the correct types)
    and assigns them to their corresponding argument values.
    The rest of the function body may then follow.
    For example, the call

    f(1, 2)

    to the function

    func f(x, y int32) { stmts }

    may be reduced to

    { var x, y int32 = 1, 2; stmts }.

    There are many reasons why this is not always possible. For
    example, true parameters are statically resolved in the same
    scope, and are dynamically assigned their arguments in
    parallel; but each spec in a var declaration is statically
    resolved in sequence and dynamically executed in sequence, so
    earlier parameters may shadow references in later ones.

  - Even an argument expression as simple as ptr.x may not be
    referentially transparent, because another argument may have the
    effect of changing the value of ptr.

    This constraint could be relaxed by some kind of alias or
    escape analysis that proves that ptr cannot be mutated during
    the call.

  - Although constants are referentially transparent, as a matter of
    style we do not wish to duplicate literals that are referenced
    multiple times in the body because this undoes proper factoring.
    Also, string literals may be arbitrarily large.

  - If the function body consists of statements other than just
    "return expr", in some contexts it may be syntactically
    impossible to reduce the call. Consider:

    if x := f(); cond { ... }

    Go has no equivalent to Lisp's progn or Rust's blocks,
    nor ML's let expressions (let param = arg in body);
    its closest equivalent is func(param){body}(arg).
    Reduction strategies must therefore consider the syntactic
    context of the call.

    In such situations we could work harder to extract a statement
    context for the call, by transforming it to:

    { x := f(); if cond { ... } }

  - Similarly, without the equivalent of Rust-style blocks and
    first-class tuples, there is no general way to reduce a call
    to a function such as

    func(params)(args)(results) { stmts; return expr }

    to an expression such as

    { var params = args; stmts; expr }

    or even a statement such as

    results = { var params = args; stmts; expr }

    Consequently the declaration and scope of the result variables,
    and the assignment and control-flow implications of the return
    statement, must be dealt with by cases.

  - A standalone call statement that calls a function whose body is
    "return expr" cannot be simply replaced by the body expression
    if it is not itself a call or channel receive expression; it is
    necessary to explicitly discard the result using "_ = expr".

    Similarly, if the body is a call expression, only calls to some
    built-in functions with no result (such as copy or panic) are
    permitted as statements, whereas others (such as append) return
    a result that must be used, even if just by discarding.

  - If a parameter or result variable is updated by an assignment
    within the function body, it cannot always be safely replaced
    by a variable in the caller. For example, given

    func f(a int) int { a++; return a }

    The call y = f(x) cannot be replaced by { x++; y = x } because
    this would change the value of the caller's variable x.
    Only if the caller is finished with x is this safe.

    A similar argument applies to parameter or result variables
    that escape: by eliminating a variable, inlining would change
    the identity of the variable that escapes.

  - If the function body uses 'defer' and the inlined call is not a
    tail-call, inlining may delay the deferred effects.

  - Because the scope of a control label is the entire function, a
    call cannot be reduced if the caller and callee have intersecting
    sets of control labels. (It is possible to α-rename any
    conflicting ones, but our colleagues building C++ refactoring
    tools report that, when tools must choose new identifiers, they
    generally do a poor job.)

  - Given

    func f() uint8 { return 0 }

    var x any = f()

    reducing the call to var x any = 0 is unsound because it
    discards the implicit conversion to uint8. We may need to make
    each argument-to-parameter conversion explicit if the types
    differ. Assignments to variadic parameters may need to
    explicitly construct a slice.

    An analogous problem applies to the implicit assignments in
    return statements:

    func g() any { return f() }

    Replacing the call f() with 0 would silently lose a
    conversion to uint8 and change the behavior of the program.

  - When inlining a call f(1, x, g()) where those parameters are
    unreferenced, we should be able to avoid evaluating 1 and x
    since they are pure and thus have no effect. But x may be the
    last reference to a local variable in the caller, so removing
    it would cause a compilation error. Parameter substitution must
    avoid making the caller's local variables unreferenced (or must
    be prepared to eliminate the declaration too---this is where an
    iterative framework for simplification would really help).

  - An expression such as s[i] may be valid if s and i are
    variables but invalid if either or both of them are constants.
    For example, a negative constant index s[-1] is always out of
    bounds, and even a non-negative constant index may be out of
    bounds depending on the particular string constant (e.g.
    "abc"[4]).

    So, if a parameter participates in any expression that is
    subject to additional compile-time checks when its operands are
    constant, it may be unsafe to substitute that parameter by a
    constant argument value (#62664).

More complex callee functions are inlinable with more elaborate and
invasive changes to the statements surrounding the call expression.

TODO(adonovan): future work:

  - Handle more of the above special cases by careful analysis,
    thoughtful factoring of the large design space, and thorough
    test coverage.

  - Compute precisely (not conservatively) when parameter
    substitution would remove the last reference to a caller local
    variable, and blank out the local instead of retreating from
    the substitution.

  - Afford the client more control such as a limit on the total
    increase in line count, or a refusal to inline using the
    general approach (replacing name by function literal). This
    could be achieved by returning metadata alongside the result
    and having the client conditionally discard the change.

  - Support inlining of generic functions, replacing type parameters
    by their instantiations.

  - Support inlining of calls to function literals ("closures").
    But note that the existing algorithm makes widespread assumptions
    that the callee is a package-level function or method.

  - Eliminate explicit conversions of "untyped" literals inserted
    conservatively when they are redundant. For example, the
    conversion int32(1) is redundant when this value is used only as a
    slice index; but it may be crucial if it is used in x := int32(1)
    as it changes the type of x, which may have further implications.
    The conversions may also be important to the falcon analysis.

  - Allow non-'go' build systems such as Bazel/Blaze a chance to
    decide whether an import is accessible using logic other than
    "/internal/" path segments. This could be achieved by returning
    the list of added import paths instead of a text diff.

  - Inlining a function from another module may change the
    effective version of the Go language spec that governs it. We
    should probably make the client responsible for rejecting
    attempts to inline from newer callees to older callers, since
    there's no way for this package to access module versions.

  - Use an alternative implementation of the import-organizing
    operation that doesn't require operating on a complete file
    (and reformatting). Then return the results in a higher-level
    form as a set of import additions and deletions plus a single
    diff that encloses the call expression. This interface could
    perhaps be implemented atop imports.Process by post-processing
    its result to obtain the abstract import changes and discarding
    its formatted output.
*/
package inline
