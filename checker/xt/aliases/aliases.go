// Copyright 2024 The Go Authors. All rights reserved.
// Use of this source code is governed by a BSD-style
// license that can be found in the LICENSE file.

package aliases

import (
	"go/token"
	"go/types"
)

// Package aliases defines backward compatible shims
// for the types.Alias type representation added in 1.22.
// This defines placeholders for x/tools until 1.26.

// NewAlias creates a new TypeName in Package pkg that
// is an alias for the type rhs.
//
// The enabled parameter determines whether the resulting [TypeName]'s
// type is an [types.Alias]. Its value must be the result of a call to
// [Enabled], which computes the effective value of
// GODEBUG=gotypesalias=... by invoking the type checker. The Enabled
// function is expensive and should be called once per task (e.g.
// package import), not once per call to NewAlias.
//
// Precondition: enabled || len(tparams)==0.
// If materialized aliases are disabled, there must not be any type parameters.
func NewAlias(enabled bool, pos token.Pos, pkg *types.Package, name string, rhs types.Type, tparams []*types.TypeParam) *types.TypeName {
	if enabled {
		tname := types.NewTypeName(pos, pkg, name, nil)
		SetTypeParams(types.NewAlias(tname, rhs), tparams)
		return tname
	}
	if len(tparams) > 0 {
		panic("cannot create an alias with type parameters when gotypesalias is not enabled")
	}
	return types.NewTypeName(pos, pkg, name, rhs)
}
