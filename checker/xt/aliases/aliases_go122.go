// Copyright 2024 The Go Authors. All rights reserved.
// Use of this source code is governed by a BSD-style
// license that can be found in the LICENSE file.

package aliases

import (
	"go/ast"
	"go/parser"
	"go/token"
	"go/types"
)

// Rhs returns the type on the right-hand side of the alias declaration.
func Rhs(alias *types.Alias) types.Type {
	if alias, ok := any(alias).(interface{ Rhs() types.Type }); ok {
		return alias.Rhs() // go1.23+
	}

	// go1.22's Alias didn't have the Rhs method,
	// so Unalias is the best we can do.
	return types.Unalias(alias)
}

// TypeParams returns the type parameter list of the alias.
func TypeParams(alias *types.Alias) *types.TypeParamList {
	if alias, ok := any(alias).(interface{ TypeParams() *types.TypeParamList }); ok {
		return alias.TypeParams() // go1.23+
	}
	return nil
}

// SetTypeParams sets the type parameters of the alias type.
func SetTypeParams(alias *types.Alias, tparams []*types.TypeParam) {
	if alias, ok := any(alias).(interface {
		SetTypeParams(tparams []*types.TypeParam)
	}); ok {
		alias.SetTypeParams(tparams) // go1.23+
	} else if len(tparams) > 0 {
		panic("cannot set type parameters of an Alias type in go1.22")
	}
}

// TypeArgs returns the type arguments used to instantiate the Alias type.
func TypeArgs(alias *types.Alias) *types.TypeList {
	if alias, ok := any(alias).(interface{ TypeArgs() *types.TypeList }); ok {
		return alias.TypeArgs() // go1.23+
	}
	return nil // empty (go1.22)
}

// Origin returns the generic Alias type of which alias is an instance.
// If alias is not an instance of a generic alias, Origin returns alias.
func Origin(alias *types.Alias) *types.Alias {
	if alias, ok := any(alias).(interface{ Origin() *types.Alias }); ok {
		return alias.Origin() // go1.23+
	}
	return alias // not an instance of a generic alias (go1.22)
}

// Enabled reports whether [NewAlias] should create [types.Alias] types.
//
// This function is expensive! Call it sparingly.
func Enabled() bool {
	// The only reliable way to compute the answer is to invoke go/types.
	// We don't parse the GODEBUG environment variable, because
	// (a) it's tricky to do so in a manner that is consistent
	//     with the godebug package; in particular, a simple
	//     substring check is not good enough. The value is a
	//     rightmost-wins list of options. But more importantly:
	// (b) it is impossible to detect changes to the effective
	//     setting caused by os.Setenv("GODEBUG"), as happens in
	//     many tests. Therefore any attempt to cache the result
	//     is just incorrect.
	fset := token.NewFileSet()
	f, _ := parser.ParseFile(fset, "a.go", "package p; type A = int", parser.SkipObjectResolution)
	pkg, _ := new(types.Config).Check("p", fset, []*ast.File{f}, nil)
	_, enabled := pkg.Scope().Lookup("A").Type().(*types.Alias)
	return enabled
}
