// Copyright 2021 The Go Authors. All rights reserved.
// Use of this source code is governed by a BSD-style
// license that can be found in the LICENSE file.

package typeparams

import (
	"errors"
	"fmt"
	"go/types"
	"os"
	"strings"
)

//go:generate go run copytermlist.go

const debug = false

var ErrEmptyTypeSet = errors.New("empty type set")

// StructuralTerms returns a slice of terms representing the normalized
// structural type restrictions of a type parameter, if any.
//
// Structural type restrictions of a type parameter are created via
// non-interface types embedded in its constraint interface (directly, or via a
// chain of interface embeddings). For example, in the declaration
//
//	type T[P interface{~int; m()}] int
//
// the structural restriction of the type parameter P is ~int.
//
// With interface embedding and unions, the specification of structural type
// restrictions may be arbitrarily complex. For example, consider the
// following:
//
//	type A interface{ ~string|~[]byte }
//
//	type B interface{ int|string }
//
//	type C interface { ~string|~int }
//
//	type T[P interface{ A|B; C }] int
//
// In this example, the structural type restriction of P is ~string|int: A|B
// expands to ~string|~[]byte|int|string, which reduces to ~string|~[]byte|int,
// which when intersected with C (~string|~int) yields ~string|int.
//
// StructuralTerms computes these expansions and reductions, producing a
// "normalized" form of the embeddings. A structural restriction is normalized
// if it is a single union containing no interface terms, and is minimal in the
// sense that removing any term changes the set of types satisfying the
// constraint. It is left as a proof for the reader that, modulo sorting, there
// is exactly one such normalized form.
//
// Because the minimal representation always takes this form, StructuralTerms
// returns a slice of tilde terms corresponding to the terms of the union in
// the normalized structural restriction. An error is returned if the
// constraint interface is invalid, exceeds complexity bounds, or has an empty
// type set. In the latter case, StructuralTerms returns ErrEmptyTypeSet.
//
// StructuralTerms makes no guarantees about the order of terms, except that it
// is deterministic.
func StructuralTerms(tparam *types.TypeParam) ([]*types.Term, error) {
	constraint := tparam.Constraint()
	if constraint == nil {
		return nil, fmt.Errorf("%s has nil constraint", tparam)
	}
	iface, _ := constraint.Underlying().(*types.Interface)
	if iface == nil {
		return nil, fmt.Errorf("constraint is %T, not *types.Interface", constraint.Underlying())
	}
	return InterfaceTermSet(iface)
}

// InterfaceTermSet computes the normalized terms for a constraint interface,
// returning an error if the term set cannot be computed or is empty. In the
// latter case, the error will be ErrEmptyTypeSet.
//
// See the documentation of StructuralTerms for more information on
// normalization.
func InterfaceTermSet(iface *types.Interface) ([]*types.Term, error) {
	return computeTermSet(iface)
}

// UnionTermSet computes the normalized terms for a union, returning an error
// if the term set cannot be computed or is empty. In the latter case, the
// error will be ErrEmptyTypeSet.
//
// See the documentation of StructuralTerms for more information on
// normalization.
func UnionTermSet(union *types.Union) ([]*types.Term, error) {
	return computeTermSet(union)
}

func computeTermSet(typ types.Type) ([]*types.Term, error) {
	tset, err := computeTermSetInternal(typ, make(map[types.Type]*termSet), 0)
	if err != nil {
		return nil, err
	}
	if tset.terms.isEmpty() {
		return nil, ErrEmptyTypeSet
	}
	if tset.terms.isAll() {
		return nil, nil
	}
	var terms []*types.Term
	for _, term := range tset.terms {
		terms = append(terms, types.NewTerm(term.tilde, term.typ))
	}
	return terms, nil
}

// A termSet holds the normalized set of terms for a given type.
//
// The name termSet is intentionally distinct from 'type set': a type set is
// all types that implement a type (and includes method restrictions), whereas
// a term set just represents the structural restrictions on a type.
type termSet struct {
	complete bool
	terms    termlist
}

func indentf(depth int, format string, args ...interface{}) {
	fmt.Fprintf(os.Stderr, strings.Repeat(".", depth)+format+"\n", args...)
}

func computeTermSetInternal(t types.Type, seen map[types.Type]*termSet, depth int) (res *termSet, err error) {
	if t == nil {
		panic("nil type")
	}

	if debug {
		indentf(depth, "%s", t.String())
		defer func() {
			if err != nil {
				indentf(depth, "=> %s", err)
			} else {
				indentf(depth, "=> %s", res.terms.String())
			}
		}()
	}

	const maxTermCount = 100
	if tset, ok := seen[t]; ok {
		if !tset.complete {
			return nil, fmt.Errorf("cycle detected in the declaration of %s", t)
		}
		return tset, nil
	}

	// Mark the current type as seen to avoid infinite recursion.
	tset := new(termSet)
	defer func() {
		tset.complete = true
	}()
	seen[t] = tset

	switch u := t.Underlying().(type) {
	case *types.Interface:
		// The term set of an interface is the intersection of the term sets of its
		// embedded types.
		tset.terms = allTermlist
		for i := 0; i < u.NumEmbeddeds(); i++ {
			embedded := u.EmbeddedType(i)
			if _, ok := embedded.Underlying().(*types.TypeParam); ok {
				return nil, fmt.Errorf("invalid embedded type %T", embedded)
			}
			tset2, err := computeTermSetInternal(embedded, seen, depth+1)
			if err != nil {
				return nil, err
			}
			tset.terms = tset.terms.intersect(tset2.terms)
		}
	case *types.Union:
		// The term set of a union is the union of term sets of its terms.
		tset.terms = nil
		for i := 0; i < u.Len(); i++ {
			t := u.Term(i)
			var terms termlist
			switch t.Type().Underlying().(type) {
			case *types.Interface:
				tset2, err := computeTermSetInternal(t.Type(), seen, depth+1)
				if err != nil {
					return nil, err
				}
				terms = tset2.terms
			case *types.TypeParam, *types.Union:
				// A stand-alone type parameter or union is not permitted as union
				// term.
				return nil, fmt.Errorf("invalid union term %T", t)
			default:
				if t.Type() == types.Typ[types.Invalid] {
					continue
				}
				terms = termlist{{t.Tilde(), t.Type()}}
			}
			tset.terms = tset.terms.union(terms)
			if len(tset.terms) > maxTermCount {
				return nil, fmt.Errorf("exceeded max term count %d", maxTermCount)
			}
		}
	case *types.TypeParam:
		panic("unreachable")
	default:
		// For all other types, the term set is just a single non-tilde term
		// holding the type itself.
		if u != types.Typ[types.Invalid] {
			tset.terms = termlist{{false, t}}
		}
	}
	return tset, nil
}

// under is a facade for the go/types internal function of the same name. It is
// used by typeterm.go.
func under(t types.Type) types.Type {
	return t.Underlying()
}
