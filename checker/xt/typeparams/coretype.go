// Copyright 2022 The Go Authors. All rights reserved.
// Use of this source code is governed by a BSD-style
// license that can be found in the LICENSE file.

package typeparams

import (
	"fmt"
	"go/types"
)

// CoreType returns the core type of T or nil if T does not have a core type.
//
// See https://go.dev/ref/spec#Core_types for the definition of a core type.
func CoreType(T types.Type) types.Type {
	U := T.Underlying()
	if _, ok := U.(*types.Interface); !ok {
		return U // for non-interface types,
	}

	terms, err := NormalTerms(U)
	if len(terms) == 0 || err != nil {
		// len(terms) -> empty type set of interface.
		// err != nil => U is invalid, exceeds complexity bounds, or has an empty type set.
		return nil // no core type.
	}

	U = terms[0].Type().Underlying()
	var identical int // i in [0,identical) => Identical(U, terms[i].Type().Underlying())
	for identical = 1; identical < len(terms); identical++ {
		if !types.Identical(U, terms[identical].Type().Underlying()) {
			break
		}
	}

	if identical == len(terms) {
		// https://go.dev/ref/spec#Core_types
		// "There is a single type U which is the underlying type of all types in the type set of T"
		return U
	}
	ch, ok := U.(*types.Chan)
	if !ok {
		return nil // no core type as identical < len(terms) and U is not a channel.
	}
	// https://go.dev/ref/spec#Core_types
	// "the type chan E if T contains only bidirectional channels, or the type chan<- E or
	// <-chan E depending on the direction of the directional channels present."
	for chans := identical; chans < len(terms); chans++ {
		curr, ok := terms[chans].Type().Underlying().(*types.Chan)
		if !ok {
			return nil
		}
		if !types.Identical(ch.Elem(), curr.Elem()) {
			return nil // channel elements are not identical.
		}
		if ch.Dir() == types.SendRecv {
			// ch is bidirectional. We can safely always use curr's direction.
			ch = curr
		} else if curr.Dir() != types.SendRecv && ch.Dir() != curr.Dir() {
			// ch and curr are not bidirectional and not the same direction.
			return nil
		}
	}
	return ch
}

// NormalTerms returns a slice of terms representing the normalized structural
// type restrictions of a type, if any.
//
// For all types other than *types.TypeParam, *types.Interface, and
// *types.Union, this is just a single term with Tilde() == false and
// Type() == typ. For *types.TypeParam, *types.Interface, and *types.Union, see
// below.
//
// Structural type restrictions of a type parameter are created via
// non-interface types embedded in its constraint interface (directly, or via a
// chain of interface embeddings). For example, in the declaration type
// T[P interface{~int; m()}] int the structural restriction of the type
// parameter P is ~int.
//
// With interface embedding and unions, the specification of structural type
// restrictions may be arbitrarily complex. For example, consider the
// following:
//
//	type A interface{ ~string|~[]byte }
//
//	type B interface{ int|string }
//
//	type C interface { ~string|~int }
//
//	type T[P interface{ A|B; C }] int
//
// In this example, the structural type restriction of P is ~string|int: A|B
// expands to ~string|~[]byte|int|string, which reduces to ~string|~[]byte|int,
// which when intersected with C (~string|~int) yields ~string|int.
//
// NormalTerms computes these expansions and reductions, producing a
// "normalized" form of the embeddings. A structural restriction is normalized
// if it is a single union containing no interface terms, and is minimal in the
// sense that removing any term changes the set of types satisfying the
// constraint. It is left as a proof for the reader that, modulo sorting, there
// is exactly one such normalized form.
//
// Because the minimal representation always takes this form, NormalTerms
// returns a slice of tilde terms corresponding to the terms of the union in
// the normalized structural restriction. An error is returned if the type is
// invalid, exceeds complexity bounds, or has an empty type set. In the latter
// case, NormalTerms returns ErrEmptyTypeSet.
//
// NormalTerms makes no guarantees about the order of terms, except that it
// is deterministic.
func NormalTerms(typ types.Type) ([]*types.Term, error) {
	switch typ := typ.Underlying().(type) {
	case *types.TypeParam:
		return StructuralTerms(typ)
	case *types.Union:
		return UnionTermSet(typ)
	case *types.Interface:
		return InterfaceTermSet(typ)
	default:
		return []*types.Term{types.NewTerm(false, typ)}, nil
	}
}

// Deref returns the type of the variable pointed to by t,
// if t's core type is a pointer; otherwise it returns t.
//
// Do not assume that Deref(T)==T implies T is not a pointer:
// consider "type T *T", for example.
//
// TODO(adonovan): ideally this would live in typesinternal, but that
// creates an import cycle. Move there when we melt this package down.
func Deref(t types.Type) types.Type {
	if ptr, ok := CoreType(t).(*types.Pointer); ok {
		return ptr.Elem()
	}
	return t
}

// MustDeref returns the type of the variable pointed to by t.
// It panics if t's core type is not a pointer.
//
// TODO(adonovan): ideally this would live in typesinternal, but that
// creates an import cycle. Move there when we melt this package down.
func MustDeref(t types.Type) types.Type {
	if ptr, ok := CoreType(t).(*types.Pointer); ok {
		return ptr.Elem()
	}
	panic(fmt.Sprintf("%v is not a pointer", t))
}
