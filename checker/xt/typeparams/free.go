// Copyright 2024 The Go Authors. All rights reserved.
// Use of this source code is governed by a BSD-style
// license that can be found in the LICENSE file.

package typeparams

import (
	"go/types"

	"ipcheck/xt/aliases"
)

// Free is a memoization of the set of free type parameters within a
// type. It makes a sequence of calls to [Free.Has] for overlapping
// types more efficient. The zero value is ready for use.
//
// NOTE: Adapted from go/types/infer.go. If it is later exported, factor.
type Free struct {
	seen map[types.Type]bool
}

// Has reports whether the specified type has a free type parameter.
func (w *Free) Has(typ types.Type) (res bool) {
	// detect cycles
	if x, ok := w.seen[typ]; ok {
		return x
	}
	if w.seen == nil {
		w.seen = make(map[types.Type]bool)
	}
	w.seen[typ] = false
	defer func() {
		w.seen[typ] = res
	}()

	switch t := typ.(type) {
	case nil, *types.Basic: // TODO(gri) should nil be handled here?
		break

	case *types.Alias:
		if aliases.TypeParams(t).Len() > aliases.TypeArgs(t).Len() {
			return true // This is an uninstantiated Alias.
		}
		// The expansion of an alias can have free type parameters,
		// whether or not the alias itself has type parameters:
		//
		//   func _[K comparable]() {
		//     type Set      = map[K]bool // free(Set)      = {K}
		//     type MapTo[V] = map[K]V    // free(Map[foo]) = {V}
		//   }
		//
		// So, we must Unalias.
		return w.Has(types.Unalias(t))

	case *types.Array:
		return w.Has(t.Elem())

	case *types.Slice:
		return w.Has(t.Elem())

	case *types.Struct:
		for i, n := 0, t.NumFields(); i < n; i++ {
			if w.Has(t.Field(i).Type()) {
				return true
			}
		}

	case *types.Pointer:
		return w.Has(t.Elem())

	case *types.Tuple:
		n := t.Len()
		for i := 0; i < n; i++ {
			if w.Has(t.At(i).Type()) {
				return true
			}
		}

	case *types.Signature:
		// t.tparams may not be nil if we are looking at a signature
		// of a generic function type (or an interface method) that is
		// part of the type we're testing. We don't care about these type
		// parameters.
		// Similarly, the receiver of a method may declare (rather than
		// use) type parameters, we don't care about those either.
		// Thus, we only need to look at the input and result parameters.
		return w.Has(t.Params()) || w.Has(t.Results())

	case *types.Interface:
		for i, n := 0, t.NumMethods(); i < n; i++ {
			if w.Has(t.Method(i).Type()) {
				return true
			}
		}
		terms, err := InterfaceTermSet(t)
		if err != nil {
			return false // ill typed
		}
		for _, term := range terms {
			if w.Has(term.Type()) {
				return true
			}
		}

	case *types.Map:
		return w.Has(t.Key()) || w.Has(t.Elem())

	case *types.Chan:
		return w.Has(t.Elem())

	case *types.Named:
		args := t.TypeArgs()
		if params := t.TypeParams(); params.Len() > args.Len() {
			return true // this is an uninstantiated named type.
		}
		for i, n := 0, args.Len(); i < n; i++ {
			if w.Has(args.At(i)) {
				return true
			}
		}
		return w.Has(t.Underlying()) // recurse for types local to parameterized functions

	case *types.TypeParam:
		return true

	default:
		panic(t) // unreachable
	}

	return false
}
