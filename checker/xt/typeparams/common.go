// Copyright 2021 The Go Authors. All rights reserved.
// Use of this source code is governed by a BSD-style
// license that can be found in the LICENSE file.

// Package typeparams contains common utilities for writing tools that
// interact with generic Go code, as introduced with Go 1.18. It
// supplements the standard library APIs. Notably, the StructuralTerms
// API computes a minimal representation of the structural
// restrictions on a type parameter.
//
// An external version of these APIs is available in the
// golang.org/x/exp/typeparams module.
package typeparams

import (
	"go/ast"
	"go/token"
	"go/types"
)

// UnpackIndexExpr extracts data from AST nodes that represent index
// expressions.
//
// For an ast.IndexExpr, the resulting indices slice will contain exactly one
// index expression. For an ast.IndexListExpr (go1.18+), it may have a variable
// number of index expressions.
//
// For nodes that don't represent index expressions, the first return value of
// UnpackIndexExpr will be nil.
func UnpackIndexExpr(n ast.Node) (x ast.Expr, lbrack token.Pos, indices []ast.Expr, rbrack token.Pos) {
	switch e := n.(type) {
	case *ast.IndexExpr:
		return e.X, e.Lbrack, []ast.Expr{e.Index}, e.Rbrack
	case *ast.IndexListExpr:
		return e.X, e.Lbrack, e.Indices, e.Rbrack
	}
	return nil, token.NoPos, nil, token.NoPos
}

// PackIndexExpr returns an *ast.IndexExpr or *ast.IndexListExpr, depending on
// the cardinality of indices. Calling PackIndexExpr with len(indices) == 0
// will panic.
func PackIndexExpr(x ast.Expr, lbrack token.Pos, indices []ast.Expr, rbrack token.Pos) ast.Expr {
	switch len(indices) {
	case 0:
		panic("empty indices")
	case 1:
		return &ast.IndexExpr{
			X:      x,
			Lbrack: lbrack,
			Index:  indices[0],
			Rbrack: rbrack,
		}
	default:
		return &ast.IndexListExpr{
			X:       x,
			Lbrack:  lbrack,
			Indices: indices,
			Rbrack:  rbrack,
		}
	}
}

// IsTypeParam reports whether t is a type parameter (or an alias of one).
func IsTypeParam(t types.Type) bool {
	_, ok := types.Unalias(t).(*types.TypeParam)
	return ok
}
