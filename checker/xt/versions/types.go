// Copyright 2023 The Go Authors. All rights reserved.
// Use of this source code is governed by a BSD-style
// license that can be found in the LICENSE file.

package versions

import (
	"go/ast"
	"go/types"
)

// FileVersion returns a file's Go version.
// The reported version is an unknown Future version if a
// version cannot be determined.
func FileVersion(info *types.Info, file *ast.File) string {
	// In tools built with Go >= 1.22, the Go version of a file
	// follow a cascades of sources:
	// 1) types.Info.FileVersion, which follows the cascade:
	//   1.a) file version (ast.File.GoVersion),
	//   1.b) the package version (types.Config.GoVersion), or
	// 2) is some unknown Future version.
	//
	// File versions require a valid package version to be provided to types
	// in Config.GoVersion. Config.GoVersion is either from the package's module
	// or the toolchain (go run). This value should be provided by go/packages
	// or unitchecker.Config.GoVersion.
	if v := info.FileVersions[file]; IsValid(v) {
		return v
	}
	// Note: we could instead return runtime.Version() [if valid].
	// This would act as a max version on what a tool can support.
	return Future
}
