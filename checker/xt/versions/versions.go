// Copyright 2023 The Go Authors. All rights reserved.
// Use of this source code is governed by a BSD-style
// license that can be found in the LICENSE file.

package versions

import (
	"strings"
)

// Note: If we use build tags to use go/versions when go >=1.22,
// we run into go.dev/issue/53737. Under some operations users would see an
// import of "go/versions" even if they would not compile the file.
// For example, during `go get -u ./...` (go.dev/issue/64490) we do not try to include
// For this reason, this library just a clone of go/versions for the moment.

// Lang returns the Go language version for version x.
// If x is not a valid version, Lang returns the empty string.
// For example:
//
//	Lang("go1.21rc2") = "go1.21"
//	Lang("go1.21.2") = "go1.21"
//	Lang("go1.21") = "go1.21"
//	Lang("go1") = "go1"
//	Lang("bad") = ""
//	Lang("1.21") = ""
func Lang(x string) string {
	v := lang(stripGo(x))
	if v == "" {
		return ""
	}
	return x[:2+len(v)] // "go"+v without allocation
}

// Compare returns -1, 0, or +1 depending on whether
// x < y, x == y, or x > y, interpreted as Go versions.
// The versions x and y must begin with a "go" prefix: "go1.21" not "1.21".
// Invalid versions, including the empty string, compare less than
// valid versions and equal to each other.
// The language version "go1.21" compares less than the
// release candidate and eventual releases "go1.21rc1" and "go1.21.0".
// Custom toolchain suffixes are ignored during comparison:
// "go1.21.0" and "go1.21.0-bigcorp" are equal.
func Compare(x, y string) int { return compare(stripGo(x), stripGo(y)) }

// IsValid reports whether the version x is valid.
func IsValid(x string) bool { return isValid(stripGo(x)) }

// stripGo converts from a "go1.21" version to a "1.21" version.
// If v does not start with "go", stripGo returns the empty string (a known invalid version).
func stripGo(v string) string {
	v, _, _ = strings.Cut(v, "-") // strip -bigcorp suffix.
	if len(v) < 2 || v[:2] != "go" {
		return ""
	}
	return v[2:]
}
