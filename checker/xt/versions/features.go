// Copyright 2023 The Go Authors. All rights reserved.
// Use of this source code is governed by a BSD-style
// license that can be found in the LICENSE file.

package versions

// This file contains predicates for working with file versions to
// decide when a tool should consider a language feature enabled.

// GoVersions that features in x/tools can be gated to.
const (
	Go1_18 = "go1.18"
	Go1_19 = "go1.19"
	Go1_20 = "go1.20"
	Go1_21 = "go1.21"
	Go1_22 = "go1.22"
)

// Future is an invalid unknown Go version sometime in the future.
// Do not use directly with Compare.
const Future = ""

// AtLeast reports whether the file version v comes after a Go release.
//
// Use this predicate to enable a behavior once a certain Go release
// has happened (and stays enabled in the future).
func AtLeast(v, release string) bool {
	if v == Future {
		return true // an unknown future version is always after y.
	}
	return Compare(Lang(v), Lang(release)) >= 0
}

// Before reports whether the file version v is strictly before a Go release.
//
// Use this predicate to disable a behavior once a certain Go release
// has happened (and stays enabled in the future).
func Before(v, release string) bool {
	if v == Future {
		return false // an unknown future version happens after y.
	}
	return Compare(Lang(v), Lang(release)) < 0
}
