// Copyright 2023 The Go Authors. All rights reserved.
// Use of this source code is governed by a BSD-style
// license that can be found in the LICENSE file.

// This is a fork of internal/gover for use by x/tools until
// go1.21 and earlier are no longer supported by x/tools.

package versions

import "strings"

// A gover is a parsed Go gover: major[.Minor[.Patch]][kind[pre]]
// The numbers are the original decimal strings to avoid integer overflows
// and since there is very little actual math. (Probably overflow doesn't matter in practice,
// but at the time this code was written, there was an existing test that used
// go1.99999999999, which does not fit in an int on 32-bit platforms.
// The "big decimal" representation avoids the problem entirely.)
type gover struct {
	major string // decimal
	minor string // decimal or ""
	patch string // decimal or ""
	kind  string // "", "alpha", "beta", "rc"
	pre   string // decimal or ""
}

// compare returns -1, 0, or +1 depending on whether
// x < y, x == y, or x > y, interpreted as toolchain versions.
// The versions x and y must not begin with a "go" prefix: just "1.21" not "go1.21".
// Malformed versions compare less than well-formed versions and equal to each other.
// The language version "1.21" compares less than the release candidate and eventual releases "1.21rc1" and "1.21.0".
func compare(x, y string) int {
	vx := parse(x)
	vy := parse(y)

	if c := cmpInt(vx.major, vy.major); c != 0 {
		return c
	}
	if c := cmpInt(vx.minor, vy.minor); c != 0 {
		return c
	}
	if c := cmpInt(vx.patch, vy.patch); c != 0 {
		return c
	}
	if c := strings.Compare(vx.kind, vy.kind); c != 0 { // "" < alpha < beta < rc
		return c
	}
	if c := cmpInt(vx.pre, vy.pre); c != 0 {
		return c
	}
	return 0
}

// lang returns the Go language version. For example, lang("1.2.3") == "1.2".
func lang(x string) string {
	v := parse(x)
	if v.minor == "" || v.major == "1" && v.minor == "0" {
		return v.major
	}
	return v.major + "." + v.minor
}

// isValid reports whether the version x is valid.
func isValid(x string) bool {
	return parse(x) != gover{}
}

// parse parses the Go version string x into a version.
// It returns the zero version if x is malformed.
func parse(x string) gover {
	var v gover

	// Parse major version.
	var ok bool
	v.major, x, ok = cutInt(x)
	if !ok {
		return gover{}
	}
	if x == "" {
		// Interpret "1" as "1.0.0".
		v.minor = "0"
		v.patch = "0"
		return v
	}

	// Parse . before minor version.
	if x[0] != '.' {
		return gover{}
	}

	// Parse minor version.
	v.minor, x, ok = cutInt(x[1:])
	if !ok {
		return gover{}
	}
	if x == "" {
		// Patch missing is same as "0" for older versions.
		// Starting in Go 1.21, patch missing is different from explicit .0.
		if cmpInt(v.minor, "21") < 0 {
			v.patch = "0"
		}
		return v
	}

	// Parse patch if present.
	if x[0] == '.' {
		v.patch, x, ok = cutInt(x[1:])
		if !ok || x != "" {
			// Note that we are disallowing prereleases (alpha, beta, rc) for patch releases here (x != "").
			// Allowing them would be a bit confusing because we already have:
			//	1.21 < 1.21rc1
			// But a prerelease of a patch would have the opposite effect:
			//	1.21.3rc1 < 1.21.3
			// We've never needed them before, so let's not start now.
			return gover{}
		}
		return v
	}

	// Parse prerelease.
	i := 0
	for i < len(x) && (x[i] < '0' || '9' < x[i]) {
		if x[i] < 'a' || 'z' < x[i] {
			return gover{}
		}
		i++
	}
	if i == 0 {
		return gover{}
	}
	v.kind, x = x[:i], x[i:]
	if x == "" {
		return v
	}
	v.pre, x, ok = cutInt(x)
	if !ok || x != "" {
		return gover{}
	}

	return v
}

// cutInt scans the leading decimal number at the start of x to an integer
// and returns that value and the rest of the string.
func cutInt(x string) (n, rest string, ok bool) {
	i := 0
	for i < len(x) && '0' <= x[i] && x[i] <= '9' {
		i++
	}
	if i == 0 || x[0] == '0' && i != 1 { // no digits or unnecessary leading zero
		return "", "", false
	}
	return x[:i], x[i:], true
}

// cmpInt returns cmp.Compare(x, y) interpreting x and y as decimal numbers.
// (Copied from golang.org/x/mod/semver's compareInt.)
func cmpInt(x, y string) int {
	if x == y {
		return 0
	}
	if len(x) < len(y) {
		return -1
	}
	if len(x) > len(y) {
		return +1
	}
	if x < y {
		return -1
	} else {
		return +1
	}
}
