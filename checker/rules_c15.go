package main

import (
	"fmt"
	"go/token"
	"go/types"
	"sort"
	"strings"

	"golang.org/x/tools/go/ssa"
)

func init() {
	register(&PropertyDef{
		ID: "C15",
		Explanation: "Static analysis of the codec parameter parsers. Decided: (1) R-DECODE-TOTAL (shared with C07) - each parameter-set decoder converts panics into its error result before reading anything; (2) R-BITREADER-DEPENDS - the result of every exported read method of bits.Reader data-depends (through its callees) on the reader's buffer; a method whose result is computed from constants only is wrong for almost every input; (3) R-EPB-BEFORE-PARSE - in the three NAL decoders the bit reader is constructed over the result of emulation-prevention removal of the input; (4) R-DIM-DEPENDS - the reported width/height depend on every syntax element the standards make them functions of (H.264: size in macroblocks, crop offsets, chroma_format_idc, separate_colour_plane_flag, frame_mbs_only_flag for the height; H.265: luma size, conformance window flag and offsets, chroma_format_idc, separate_colour_plane_flag); frame rate depends on time scale and units per tick; (5) R-META-FROM-SPS - the stream metadata (width, height, frame rate, sample rate, channels) is assigned from the decoded parameter set's accessors.",
		NotDecided: "Equality with the standard's values (needs an independent bit-exact encoder), frame-rate arithmetic, explicit-frequency/SBR values, scaling-list semantics.",
		Rules: []*RuleDoc{
			{Name: "R-DECODE-TOTAL", Text: "(shared with C07) decoders register a recover that assigns the error result before any read.", Run: ruleDecodeTotal},
			{Name: "R-BITREADER-DEPENDS", Text: "The result of every exported bits.Reader read method depends on Reader.buf.", Run: ruleBitReaderDepends},
			{Name: "R-EPB-BEFORE-PARSE", Text: "bits.NewReader in the NAL decoders is applied to RemoveH264or5EmulationBytes(data).", Run: ruleEPBBeforeParse},
			{Name: "R-DIM-DEPENDS", Text: "Width/Height/FrameRate depend on the syntax elements the standards define them from.", Run: ruleDimDepends},
			{Name: "R-META-FROM-SPS", Text: "VideoMeta/AudioMeta fields are assigned from the decoded parameter set's accessors.", Run: ruleMetaFromSPS},
		},
	})
	addMutants(
		&Mutant{Prop: "C15", Name: "c15-readse-constant", File: "utils/bits/reader.go",
			Old: "\t\tres = int32((ue + 1) / 2)\n\t} else {\n\t\tres = int32(-(ue / 2))\n\t}", New: "\t\tres = (res + 1) / 2\n\t} else {\n\t\tres = -res / 2\n\t}", Expect: "R-BITREADER-DEPENDS"},
		&Mutant{Prop: "C15", Name: "c15-width-ignores-chroma", File: "av/codec/h264/sps.go",
			Old: "\tsubWidthC, subHeightC := 1, 1 // ChromaArrayType == 0：单色或颜色平面分离\n\tif sps.SeparateColourPlaneFlag == 0 {\n\t\tswitch sps.ChromaFormatIdc {\n\t\tcase 1: // 4:2:0\n\t\t\tsubWidthC, subHeightC = 2, 2\n\t\tcase 2: // 4:2:2\n\t\t\tsubWidthC, subHeightC = 2, 1\n\t\t}\n\t}", New: "\tsubWidthC, subHeightC := 2, 2", Expect: "R-DIM-DEPENDS"},
		&Mutant{Prop: "C15", Name: "c15-hevc-height-ignores-window", File: "av/codec/hevc/sps.go",
			Old: "\t\treturn int(sps.Pic_height_in_luma_samples) - sub_height_c*(int(sps.Conf_win_bottom_offset)+int(sps.Conf_win_top_offset))", New: "\t\treturn int(sps.Pic_height_in_luma_samples) - sub_height_c*(int(sps.Conf_win_bottom_offset)+int(sps.Conf_win_bottom_offset))", Expect: "R-DIM-DEPENDS"},
		&Mutant{Prop: "C15", Name: "c15-vps-no-epb-removal", File: "av/codec/hevc/vps.go",
			Old: "bits.NewReader(vpsWEB)", New: "bits.NewReader(data)", Expect: "R-EPB-BEFORE-PARSE"},
		&Mutant{Prop: "C15", Name: "c15-meta-height-from-width", File: "av/codec/h264/shortcut.go",
			Old: "\t\tvm.Height = rawsps.Height()", New: "\t\tvm.Height = rawsps.Width()", Expect: "R-META-FROM-SPS"},
	)
}

// resultDependsOnBuf: does any result of fn data-depend on a load of field buf (through module callees)?
func resultDependsOn(p *Program, fn *ssa.Function, field string, memo map[*ssa.Function]int8) bool {
	if v, ok := memo[fn]; ok {
		return v == 1
	}
	memo[fn] = 2 // in progress / false
	dep := false
	instrs(fn, func(ins ssa.Instruction) {
		ret, ok := ins.(*ssa.Return)
		if !ok || dep {
			return
		}
		for i := range ret.Results {
			walkDeps(retValue(ret, i), func(x ssa.Value) bool {
				if dep {
					return false
				}
				if f, _, ok := fieldLoad(x); ok && f.Name() == field {
					dep = true
					return false
				}
				// loads through a by-value copy of the receiver (Peek clones *r)
				if call, ok := x.(*ssa.Call); ok {
					if cal := call.Call.StaticCallee(); cal != nil && p.InModule(cal) {
						if resultDependsOn(p, cal, field, memo) {
							dep = true
						}
						return false // do not follow the arguments: only the callee's own reads count
					}
				}
				return true
			})
		}
	})
	if dep {
		memo[fn] = 1
	}
	return dep
}

func ruleBitReaderDepends(c *Ctx) {
	p := c.P
	n := p.Named("utils/bits", "Reader")
	if n == nil {
		c.Lost("bits.Reader", "type not found")
		return
	}
	ms := p.SSA.MethodSets.MethodSet(types.NewPointer(n))
	memo := map[*ssa.Function]int8{}
	cnt := 0
	for i := 0; i < ms.Len(); i++ {
		sel := ms.At(i)
		name := sel.Obj().Name()
		if !(strings.HasPrefix(name, "Read") || name == "Peek") || !sel.Obj().Exported() {
			continue
		}
		fn := p.SSA.MethodValue(sel)
		if fn == nil || fn.Synthetic != "" || fn.Signature.Results().Len() == 0 {
			continue
		}
		cnt++
		c.touched(fname(fn))
		c.Decide(resultDependsOn(p, fn, "buf", memo), "bitreader-depends:"+name, p.Pos(fn.Pos()), "result depends on the buffer", "the value returned by bits.Reader."+name+" does not depend on the reader's buffer (it is computed from constants only): every syntax element decoded with it is wrong, and variable-length structures after it are parsed out of sync")
	}
	c.Floor("exported bits.Reader read methods", cnt, 15)
}

func ruleEPBBeforeParse(c *Ctx) {
	p := c.P
	rm := p.Func("utils", "RemoveH264or5EmulationBytes")
	if rm == nil {
		c.Lost("utils.RemoveH264or5EmulationBytes", "not found")
		return
	}
	for _, d := range []struct{ rel, name string }{{"av/codec/h264", "(*RawSPS).Decode"}, {"av/codec/hevc", "(*H265RawSPS).Decode"}, {"av/codec/hevc", "(*H265RawVPS).Decode"}} {
		fn := p.Func(d.rel, d.name)
		if fn == nil {
			c.Lost(d.rel+"."+d.name, "not found")
			continue
		}
		c.touched(fname(fn))
		found := false
		instrs(fn, func(ins ssa.Instruction) {
			call, ok := ins.(*ssa.Call)
			if !ok || calleeName(&call.Call) != modPath+"/utils/bits.NewReader" {
				return
			}
			found = true
			src, ok := origin(call.Call.Args[0]).(*ssa.Call)
			good := ok && src.Call.StaticCallee() == rm && origin(src.Call.Args[0]) == ssa.Value(fn.Params[1])
			c.Decide(good, "epb:"+fname(fn), p.InstrPos(ins), "parser reads the payload with emulation-prevention bytes removed", "the bit reader is not constructed over RemoveH264or5EmulationBytes(data): every 00 00 03 sequence in the parameter set shifts all following syntax elements")
		})
		if !found {
			c.Lost("epb:"+fname(fn), "bits.NewReader call not found")
		}
	}
	// the removal routine itself: copies, skipping the third byte of 00 00 03 (structure check)
	c.touched(fname(rm))
	cmp3 := false
	instrs(rm, func(ins ssa.Instruction) {
		if b, ok := ins.(*ssa.BinOp); ok && b.Op == token.EQL {
			if k, ok := evalInt(b.Y); ok && k == 3 {
				cmp3 = true
			}
		}
	})
	c.Decide(cmp3, "epb:pattern", p.Pos(rm.Pos()), "removal tests for the 00 00 03 pattern", "emulation-prevention removal no longer tests for the byte 03")
}

// fieldsRead collects the names of struct fields loaded by fn and (transitively, depth-bounded) by the module functions it calls.
func fieldsRead(p *Program, fn *ssa.Function, depth int, out map[string]bool) {
	instrs(fn, func(ins ssa.Instruction) {
		switch x := ins.(type) {
		case *ssa.FieldAddr:
			if f, _, ok := fieldAddr(x); ok {
				// count only if loaded (not merely stored)
				for _, r := range referrersOf(x) {
					if u, ok := r.(*ssa.UnOp); ok && u.Op == token.MUL {
						out[f.Name()] = true
					}
				}
			}
		case *ssa.Field:
			if st, ok := x.X.Type().Underlying().(*types.Struct); ok {
				out[st.Field(x.Field).Name()] = true
			}
		case *ssa.Call:
			if cal := x.Call.StaticCallee(); cal != nil && p.InModule(cal) && depth > 0 {
				fieldsRead(p, cal, depth-1, out)
			}
		}
	})
}

func ruleDimDepends(c *Ctx) {
	p := c.P
	type spec struct {
		rel, fn string
		need    []string
	}
	specs := []spec{
		{"av/codec/h264", "(*RawSPS).Width", []string{"PicWidthInMbsMinus1", "FrameCropLeftOffset", "FrameCropRightOffset", "ChromaFormatIdc", "SeparateColourPlaneFlag"}},
		{"av/codec/h264", "(*RawSPS).Height", []string{"PicHeightInMapUnitsMinus1", "FrameMbsOnlyFlag", "FrameCropTopOffset", "FrameCropBottomOffset", "ChromaFormatIdc", "SeparateColourPlaneFlag"}},
		{"av/codec/h264", "(*RawSPS).FrameRate", []string{"TimeScale", "NumUnitsInTick"}},
		{"av/codec/hevc", "(*H265RawSPS).Width", []string{"Pic_width_in_luma_samples", "Conformance_window_flag", "Conf_win_left_offset", "Conf_win_right_offset", "Chroma_format_idc", "Separate_colour_plane_flag"}},
		{"av/codec/hevc", "(*H265RawSPS).Height", []string{"Pic_height_in_luma_samples", "Conformance_window_flag", "Conf_win_top_offset", "Conf_win_bottom_offset", "Chroma_format_idc", "Separate_colour_plane_flag"}},
		{"av/codec/hevc", "(*H265RawSPS).FrameRate", []string{"Vui_time_scale", "Vui_num_units_in_tick"}},
	}
	for _, s := range specs {
		fn := p.Func(s.rel, s.fn)
		if fn == nil {
			c.Lost(s.rel+"."+s.fn, "not found")
			continue
		}
		c.touched(fname(fn))
		got := map[string]bool{}
		fieldsRead(p, fn, 2, got)
		var missing []string
		for _, n := range s.need {
			if !got[n] {
				missing = append(missing, n)
			}
		}
		sort.Strings(missing)
		c.Decide(len(missing) == 0, "dim-depends:"+fname(fn), p.Pos(fn.Pos()), fmt.Sprintf("reads all %d syntax elements it is a function of", len(s.need)), fname(fn)+" never reads "+strings.Join(missing, ", ")+", which the standard makes the value depend on: the reported value is wrong for every stream where that element is not at its default (other chroma formats, field coding, cropping)")
	}
	// the decoder must actually parse those elements (store to the fields)
	for _, d := range []struct {
		rel, typ, fn string
		fields       []string
	}{
		{"av/codec/h264", "RawSPS", "(*RawSPS).Decode", []string{"PicWidthInMbsMinus1", "PicHeightInMapUnitsMinus1", "FrameMbsOnlyFlag", "FrameCropLeftOffset", "FrameCropRightOffset", "FrameCropTopOffset", "FrameCropBottomOffset", "ChromaFormatIdc", "SeparateColourPlaneFlag"}},
		{"av/codec/hevc", "H265RawSPS", "(*H265RawSPS).Decode", []string{"Pic_width_in_luma_samples", "Pic_height_in_luma_samples", "Conformance_window_flag", "Conf_win_left_offset", "Conf_win_right_offset", "Conf_win_top_offset", "Conf_win_bottom_offset", "Chroma_format_idc", "Separate_colour_plane_flag"}},
	} {
		fn := p.Func(d.rel, d.fn)
		if fn == nil {
			continue
		}
		r := p.Reach([]*ssa.Function{fn}, nil)
		stored := map[string]bool{}
		fromReader := map[string]bool{}
		for f := range r.Funcs {
			instrs(f, func(ins ssa.Instruction) {
				st, ok := ins.(*ssa.Store)
				if !ok {
					return
				}
				fl, base, ok := fieldAddr(st.Addr)
				if !ok || !typeIs(base.Type(), modRel(d.rel), d.typ) {
					return
				}
				stored[fl.Name()] = true
				walkDeps(st.Val, func(x ssa.Value) bool {
					if call, ok := x.(*ssa.Call); ok && strings.Contains(calleeName(&call.Call), "utils/bits.Reader).Read") {
						fromReader[fl.Name()] = true
					}
					return true
				})
			})
		}
		var miss []string
		for _, f := range d.fields {
			if !fromReader[f] {
				miss = append(miss, f)
			}
		}
		c.Decide(len(miss) == 0, "dim-parsed:"+d.typ, p.Pos(fn.Pos()), "the decoder reads every dimension-relevant element from the bit stream", "the decoder never reads "+strings.Join(miss, ", ")+" from the bit stream")
	}
}

func ruleBitReaderBounds(c *Ctx) {
	p := c.P
	bufF := p.FieldVar("utils/bits", "Reader", "buf")
	if bufF == nil {
		c.Lost("bits.Reader.buf", "not found")
		return
	}
	// in every method of Reader: each element load of buf (IndexAddr on loaded buf whose value is used)
	// is dominated by a "hint" access `_ = r.buf[expr]` (an IndexAddr+load whose value is unused) in the same function.
	n := 0
	for _, fn := range p.FuncsInPkg("utils/bits") {
		if fn.Signature.Recv() == nil {
			continue
		}
		var hints, uses []*ssa.IndexAddr
		instrs(fn, func(ins ssa.Instruction) {
			ia, ok := ins.(*ssa.IndexAddr)
			if !ok {
				return
			}
			f, _, ok := fieldLoad(ia.X)
			if !ok || f != bufF {
				return
			}
			used := false
			for _, r := range referrersOf(ia) {
				if u, ok := r.(*ssa.UnOp); ok {
					for _, r2 := range referrersOf(u) {
						if _, isDbg := r2.(*ssa.DebugRef); !isDbg {
							used = true
						}
					}
				}
			}
			if used {
				uses = append(uses, ia)
			} else {
				hints = append(hints, ia)
			}
		})
		if len(uses) == 0 {
			continue
		}
		c.touched(fname(fn))
		for _, u := range uses {
			n++
			ok := false
			for _, h := range hints {
				if dominatesInstr(h, u) {
					ok = true
				}
			}
			c.Decide(ok, "bitreader-bounds:"+fname(fn), p.InstrPos(u), "buffer read preceded by the bounds-check access of the last bit needed", "a read of the bit buffer is not preceded by the bounds-check access for the whole read: the failure mode on truncated input is no longer a single well-defined panic converted to an error by the decoders (a guard returning 0 instead makes truncated parameter sets parse as valid)")
		}
	}
	c.Floor("bit buffer reads", n, 3)
	// ReadUe loop bounded by i < 32
	ue := p.Func("utils/bits", "(*Reader).ReadUe")
	if ue == nil {
		c.Lost("bits.Reader.ReadUe", "not found")
		return
	}
	bounded := false
	instrs(ue, func(ins ssa.Instruction) {
		if b, ok := ins.(*ssa.BinOp); ok && (b.Op == token.LSS || b.Op == token.LEQ) {
			if k, ok := evalInt(b.Y); ok && k >= 31 && k <= 32 {
				if _, isPhi := b.X.(*ssa.Phi); isPhi {
					bounded = true
				}
			}
		}
	})
	c.Decide(bounded, "bitreader:ue-bounded", p.Pos(ue.Pos()), "Exp-Golomb prefix limited to 32 zero bits", "ReadUe's leading-zero loop has no bound: a run of zero bits makes it shift by more than the word size")
}

func ruleMetaFromSPS(c *Ctx) {
	p := c.P
	type spec struct {
		rel       string
		metaType  string
		field     string
		accessor  string // method name whose result must be stored
		recvMatch string
	}
	specs := []spec{
		{"av/codec/h264", "VideoMeta", "Width", "Width", "RawSPS"},
		{"av/codec/h264", "VideoMeta", "Height", "Height", "RawSPS"},
		{"av/codec/h264", "VideoMeta", "FrameRate", "FrameRate", "RawSPS"},
		{"av/codec/h264", "VideoMeta", "FixedFrameRate", "IsFixedFrameRate", "RawSPS"},
		{"av/codec/hevc", "VideoMeta", "Width", "Width", "H265RawSPS"},
		{"av/codec/hevc", "VideoMeta", "Height", "Height", "H265RawSPS"},
		{"av/codec/hevc", "VideoMeta", "FrameRate", "FrameRate", "H265RawSPS"},
	}
	for _, s := range specs {
		found, good := false, false
		var at ssa.Instruction
		for _, fn := range p.FuncsInPkg(s.rel) {
			for _, st := range storesToField(fn, modRel("av/codec"), s.metaType, s.field) {
				found = true
				at = st
				if call, ok := stripConv(st.Val).(*ssa.Call); ok {
					if cal := call.Call.StaticCallee(); cal != nil && cal.Name() == s.accessor && cal.Signature.Recv() != nil && typeIs(cal.Signature.Recv().Type(), modRel(s.rel), s.recvMatch) {
						good = true
					}
				}
				c.touched(fname(fn))
			}
		}
		key := "meta:" + s.rel + "." + s.field
		if !found {
			c.Bad(key, "", "VideoMeta."+s.field+" is never assigned from the "+s.recvMatch)
			continue
		}
		c.Decide(good, key, p.InstrPos(at), "meta."+s.field+" = sps."+s.accessor+"()", "the stream's "+s.field+" is not taken from the decoded parameter set's "+s.accessor+"()")
	}
	// audio
	for _, s := range []struct{ field, from string }{{"SampleRate", "SampleRate"}, {"Channels", "Channels"}} {
		found, good := false, false
		var at ssa.Instruction
		for _, fn := range p.FuncsInPkg("av/codec/aac") {
			for _, st := range storesToField(fn, modRel("av/codec"), "AudioMeta", s.field) {
				found = true
				at = st
				// value derives from the decoded AudioSpecificConfig (field or accessor named like the meta field)
				walkDeps(st.Val, func(x ssa.Value) bool {
					if f, base, ok := fieldLoad(x); ok && typeIs(base.Type(), modRel("av/codec/aac"), "AudioSpecificConfig") {
						_ = f
						good = true
					}
					if call, ok := x.(*ssa.Call); ok {
						if cal := call.Call.StaticCallee(); cal != nil && cal.Signature.Recv() != nil && typeIs(cal.Signature.Recv().Type(), modRel("av/codec/aac"), "AudioSpecificConfig") {
							good = true
						}
					}
					return true
				})
				c.touched(fname(fn))
			}
		}
		key := "meta:aac." + s.field
		if !found {
			c.Bad(key, "", "AudioMeta."+s.field+" is never assigned from the AudioSpecificConfig")
			continue
		}
		c.Decide(good, key, p.InstrPos(at), "audio "+s.field+" derives from the decoded AudioSpecificConfig", "AudioMeta."+s.field+" does not derive from the decoded AudioSpecificConfig")
	}
}
