package main

import (
	"fmt"
	"go/token"
	"go/types"
	"strings"

	"golang.org/x/tools/go/ssa"
)

func init() {
	register(&PropertyDef{
		ID: "C09",
		Explanation: "Static analysis of the MPEG-TS writer. Decided: (1) R-PSI-TABLE - the PAT/PMT block literal is fully evaluated from source (no execution): 2x188 bytes, sync bytes, PID 0 + payload-unit-start + pointer 0, PAT section length and program->PMT PID, PMT packet on that PID, PCR PID = video PID constant, stream entries (0x1b, video PID) and (0x0f, audio PID), both CRC-32/MPEG values recomputed by the checker over the literal, 0xff stuffing; nothing in the module stores into the table; NewWriter writes it before returning; (2) R-WHOLE-PACKETS - every write to the TS writer's sink is the PSI table or the full slice of a [188]byte array whose byte 0 is stored 0x47; (3) R-CC-ONCE - per emitted packet exactly one increment of the continuity counter selected by PID (audio PID -> audio counter, else video counter) and exactly one write, the counter entering byte 3 masked with 0x0f; (4) R-TS-PACKETIZER-FIELDS - each TS packetiser builds its frame from the source frame (payload itself, PID and stream-id constants, 90 kHz PTS/DTS derived from Pts/Dts); (5) R-ADTS-CONST - the ADTS header is 7 bytes, syncword ff f1, frame_length = payload + 7 packed with the shift/mask triples the reader uses; (6) R-AVC-PREFIX - SPS/PPS are appended only on the IDR edge, each preceded by the 4-byte start code, and the AUD literal is 00 00 00 01 09 f0.",
		NotDecided: "Payload fidelity after PES reassembly, adaptation-field stuffing arithmetic for every size mod 184, PTS/DTS/PCR bit packing values, PES_packet_length arithmetic.",
		Rules: []*RuleDoc{
			{Name: "R-PSI-TABLE", Text: "mpegtsHeader evaluates to a valid PAT + PMT (lengths, sync, PIDs, stream types, CRC-32/MPEG, stuffing); PIDs equal tsVideoPid/tsAudioPid; no store into the table; NewWriter writes it first.", Run: rulePSITable},
			{Name: "R-WHOLE-PACKETS", Text: "Every Write on Writer.w has as argument mpegtsHeader or the full slice of a [188]byte array whose element 0 is stored 0x47.", Run: ruleWholePackets},
			{Name: "R-CC-ONCE", Text: "Per packet: one increment of the PID-selected continuity counter, one write; counter masked 0x0f in byte 3.", Run: ruleCCOnce},
			{Name: "R-TS-PACKETIZER-FIELDS", Text: "TS packetisers: Payload = frame.Payload, Pid/StreamID constants (256/0xe0, 257/0xc0), Pts/Dts = frame.Pts/Dts*90000/Second (audio: both from Pts).", Run: ruleTSPacketizerFields},
			{Name: "R-ADTS-CONST", Text: "ADTSHeader is [7]byte with ff f1 syncword, frame length = payloadSize+7 packed as (>>11)&3, (>>3)&0xff, (<<5)&0xe0 into bytes 3,4,5 matching FrameLength().", Run: ruleADTSConst},
			{Name: "R-AVC-PREFIX", Text: "prepareAvcHeader: AUD literal 00 00 00 01 09 f0; sps/pps appended only on the NalIdrSlice edge.", Run: ruleAVCPrefix},
		},
	})
	addMutants(
		&Mutant{Prop: "C09", Name: "c09-pmt-audio-pid", File: "av/format/mpegts/writer.go",
			Old: "\t0x0f, 0xe1, 0x01, 0xf0, 0x00, /* aac, pid=0x101=257 */", New: "\t0x0f, 0xe1, 0x02, 0xf0, 0x00, /* aac, pid=0x101=257 */", Expect: "R-PSI-TABLE"},
		&Mutant{Prop: "C09", Name: "c09-audio-pid-const", File: "av/format/mpegts/frame.go",
			Old: "\ttsAudioPid = 257", New: "\ttsAudioPid = 258", Expect: "R-PSI-TABLE"},
		&Mutant{Prop: "C09", Name: "c09-cc-double-increment", File: "av/format/mpegts/writer.go",
			Old: "\t\tif first {\n\t\t\tfirst = false\n\t\t\tif frame.key {", New: "\t\tif first {\n\t\t\tfirst = false\n\t\t\tif frame.key {\n\t\t\t\t*cc++", Expect: "R-CC-ONCE"},
		&Mutant{Prop: "C09", Name: "c09-cc-shared-counter", File: "av/format/mpegts/writer.go",
			Old: "\tif frame.Pid == tsAudioPid {\n\t\tcc = &w.audioCC\n\t}", New: "\tif frame.Pid == tsAudioPid && frame.key {\n\t\tcc = &w.audioCC\n\t}", Expect: "R-CC-ONCE"},
		&Mutant{Prop: "C09", Name: "c09-short-last-packet", File: "av/format/mpegts/writer.go",
			Old: "\t\tif _, err = w.w.Write(pkt[:]); err != nil {", New: "\t\tif _, err = w.w.Write(pkt[:p+inSize]); err != nil {", Expect: "R-WHOLE-PACKETS"},
		&Mutant{Prop: "C09", Name: "c09-audio-dts-from-dts", File: "av/format/mpegts/aac_packetizer.go",
			Old: "\t\tDts:      pts,\n\t\tPts:      pts,", New: "\t\tDts:      frame.Dts,\n\t\tPts:      pts,", Expect: "R-TS-PACKETIZER-FIELDS"},
		&Mutant{Prop: "C09", Name: "c09-adts-len-6", File: "av/codec/aac/adtsheader.go",
			Old: "\tframeLen := payloadSize + 7", New: "\tframeLen := payloadSize + 6", Expect: "R-ADTS-CONST"},
		&Mutant{Prop: "C09", Name: "c09-sps-on-every-slice", File: "av/format/mpegts/frame.go",
			Old: "\tif h264.NalIdrSlice == nalUnitType {\n\t\t// @see: ngx_rtmp_hls_append_sps_pps", New: "\tif h264.NalIdrSlice == nalUnitType || h264.NalSlice == nalUnitType {\n\t\t// @see: ngx_rtmp_hls_append_sps_pps", Expect: "R-AVC-PREFIX"},
	)
}

func crc32mpeg(b []int64) uint32 {
	crc := uint32(0xffffffff)
	for _, x := range b {
		crc ^= uint32(x&0xff) << 24
		for i := 0; i < 8; i++ {
			if crc&0x80000000 != 0 {
				crc = crc<<1 ^ 0x04c11db7
			} else {
				crc <<= 1
			}
		}
	}
	return crc
}

func rulePSITable(c *Ctx) {
	p := c.P
	t, ok := globalBytes(p, "av/format/mpegts", "mpegtsHeader")
	if !ok {
		c.Lost("mpegts.mpegtsHeader", "cannot evaluate the PSI table literal")
		return
	}
	vpid, ok1 := pkgConst(p, "av/format/mpegts", "tsVideoPid")
	apid, ok2 := pkgConst(p, "av/format/mpegts", "tsAudioPid")
	if !ok1 || !ok2 {
		c.Lost("mpegts.tsVideoPid/tsAudioPid", "constants not found")
		return
	}
	chk := func(cond bool, key, okm, bad string) { c.Decide(cond, "psi:"+key, "av/format/mpegts/writer.go", okm, bad) }
	chk(len(t) == 376, "length", "2 x 188 bytes", fmt.Sprintf("PSI block is %d bytes, must be 2 x 188", len(t)))
	if len(t) != 376 {
		return
	}
	pid := func(o int) int64 { return (t[o+1]&0x1f)<<8 | t[o+2] }
	chk(t[0] == 0x47 && t[188] == 0x47, "sync", "both packets start with 0x47", "a PSI packet does not start with the sync byte 0x47")
	chk(pid(0) == 0 && t[1]&0x40 != 0 && t[3]&0x30 == 0x10 && t[4] == 0, "pat-header", "PAT on PID 0, unit start, payload only, pointer 0", "PAT packet header wrong (PID 0 / payload_unit_start / adaptation control / pointer field)")
	patLen := (t[6]&0x0f)<<8 | t[7]
	chk(t[5] == 0x00 && patLen == 13, "pat-section", "table_id 0, section_length 13", fmt.Sprintf("PAT table_id=%#x section_length=%d (one program needs 13)", t[5], patLen))
	prog := t[13]<<8 | t[14]
	pmtPid := (t[15]&0x1f)<<8 | t[16]
	chk(prog == 1 && pmtPid == pid(188) && pmtPid != 0 && pmtPid != vpid && pmtPid != apid, "pat-program", fmt.Sprintf("program 1 -> PMT PID %#x = PID of packet 2", pmtPid), fmt.Sprintf("PAT announces program %d on PID %#x but the second packet has PID %#x (or it collides with a media PID)", prog, pmtPid, pid(188)))
	crcPat := uint32(t[17])<<24 | uint32(t[18])<<16 | uint32(t[19])<<8 | uint32(t[20])
	chk(crc32mpeg(t[5:17]) == crcPat, "pat-crc", fmt.Sprintf("CRC-32/MPEG %#08x verified", crcPat), fmt.Sprintf("PAT CRC in table %#08x, computed %#08x", crcPat, crc32mpeg(t[5:17])))
	allFF := func(a []int64) bool {
		for _, x := range a {
			if x != 0xff {
				return false
			}
		}
		return true
	}
	chk(allFF(t[21:188]), "pat-stuffing", "0xff stuffing", "PAT packet not padded with 0xff")
	o := 188
	chk(t[o+1]&0x40 != 0 && t[o+3]&0x30 == 0x10 && t[o+4] == 0, "pmt-header", "PMT unit start, payload only, pointer 0", "PMT packet header wrong")
	pmtLen := (t[o+6]&0x0f)<<8 | t[o+7]
	chk(t[o+5] == 0x02 && pmtLen == 23, "pmt-section", "table_id 2, section_length 23", fmt.Sprintf("PMT table_id=%#x section_length=%d (two streams need 23)", t[o+5], pmtLen))
	pcrPid := (t[o+13]&0x1f)<<8 | t[o+14]
	chk(pcrPid == vpid, "pmt-pcr-pid", "PCR PID = video PID", fmt.Sprintf("PMT PCR PID %d != tsVideoPid %d", pcrPid, vpid))
	chk((t[o+15]&0x0f)<<8|t[o+16] == 0, "pmt-proginfo", "program_info_length 0", "program_info_length not 0")
	st1, p1 := t[o+17], (t[o+18]&0x1f)<<8|t[o+19]
	st2, p2 := t[o+22], (t[o+23]&0x1f)<<8|t[o+24]
	chk(st1 == 0x1b && p1 == vpid && (t[o+20]&0x0f)<<8|t[o+21] == 0, "pmt-video", "H.264 (0x1b) on the video PID", fmt.Sprintf("first stream entry type %#x PID %d (expected 0x1b on %d)", st1, p1, vpid))
	chk(st2 == 0x0f && p2 == apid && (t[o+25]&0x0f)<<8|t[o+26] == 0, "pmt-audio", "AAC (0x0f) on the audio PID", fmt.Sprintf("second stream entry type %#x PID %d (expected 0x0f on %d)", st2, p2, apid))
	crcPmt := uint32(t[o+27])<<24 | uint32(t[o+28])<<16 | uint32(t[o+29])<<8 | uint32(t[o+30])
	chk(crc32mpeg(t[o+5:o+27]) == crcPmt, "pmt-crc", fmt.Sprintf("CRC-32/MPEG %#08x verified", crcPmt), fmt.Sprintf("PMT CRC in table %#08x, computed %#08x", crcPmt, crc32mpeg(t[o+5:o+27])))
	chk(allFF(t[o+31:]), "pmt-stuffing", "0xff stuffing", "PMT packet not padded with 0xff")
	chk(vpid == 256 && apid == 257, "fixed-pids", "video 256, audio 257", fmt.Sprintf("media PIDs are %d/%d, the fixed PIDs are 256/257", vpid, apid))
	// no store into the table elsewhere
	g := p.Global("av/format/mpegts", "mpegtsHeader")
	bad := false
	for _, fn := range p.ModFuncs() {
		if fn.Name() == "init" {
			continue
		}
		instrs(fn, func(ins ssa.Instruction) {
			if st, ok := ins.(*ssa.Store); ok {
				root := addrRoot(st.Addr)
				if root == ssa.Value(g) {
					bad = true
					c.Bad("psi:immutable", p.InstrPos(ins), "the PSI table is modified at run time")
				}
			}
		})
	}
	if !bad {
		c.OK("psi:immutable", "", "no store into mpegtsHeader outside its initialiser")
	}
	// NewWriter writes the header before returning a writer
	nw := p.Func("av/format/mpegts", "NewWriter")
	if nw == nil {
		c.Lost("mpegts.NewWriter", "not found")
		return
	}
	c.touched(fname(nw))
	r := p.Reach([]*ssa.Function{nw}, nil)
	wrote := false
	for f := range r.Funcs {
		instrs(f, func(ins ssa.Instruction) {
			if cc := callCommon(ins); cc != nil && cc.IsInvoke() && cc.Method.Name() == "Write" {
				if u, ok := cc.Args[0].(*ssa.UnOp); ok && u.X == ssa.Value(g) {
					wrote = true
				}
			}
		})
	}
	c.Decide(wrote, "psi:written-by-NewWriter", p.Pos(nw.Pos()), "NewWriter writes the PSI table", "NewWriter does not write the PAT/PMT block: segments would not begin with PAT and PMT")
	// every Writer construction goes through NewWriter
	for _, fn := range p.ModFuncs() {
		instrs(fn, func(ins ssa.Instruction) {
			if al, ok := ins.(*ssa.Alloc); ok && isPtrToNamed(al.Type(), modRel("av/format/mpegts"), "Writer") && fn != nw {
				c.Bad("psi:writer-ctor@"+fname(fn), p.InstrPos(ins), "mpegts.Writer constructed outside NewWriter (no PAT/PMT)")
			}
		})
	}
}

func ruleWholePackets(c *Ctx) {
	p := c.P
	wf := p.FieldVar("av/format/mpegts", "Writer", "w")
	g := p.Global("av/format/mpegts", "mpegtsHeader")
	if wf == nil || g == nil {
		c.Lost("mpegts.Writer.w", "not found")
		return
	}
	n := 0
	for _, fn := range p.FuncsInPkg("av/format/mpegts") {
		instrs(fn, func(ins ssa.Instruction) {
			cc := callCommon(ins)
			if cc == nil || !cc.IsInvoke() || cc.Method.Name() != "Write" {
				return
			}
			f, _, ok := fieldLoad(cc.Value)
			if !ok || f != wf {
				return
			}
			n++
			c.sites++
			c.touched(fname(fn))
			arg := cc.Args[0]
			key := "ts-write@" + fname(fn)
			if u, ok := arg.(*ssa.UnOp); ok && u.X == ssa.Value(g) {
				c.OK(key+":psi", p.InstrPos(ins), "writes the PSI table")
				return
			}
			sl, ok := arg.(*ssa.Slice)
			if !ok || sl.Low != nil || sl.High != nil {
				c.Bad(key, p.InstrPos(ins), "a write to the TS sink is not the full slice of a 188-byte packet array: the stream is no longer a sequence of whole 188-byte packets")
				return
			}
			at, ok := sl.X.Type().Underlying().(*types.Pointer)
			var arr *types.Array
			if ok {
				arr, _ = at.Elem().Underlying().(*types.Array)
			}
			if arr == nil || arr.Len() != 188 {
				c.Bad(key, p.InstrPos(ins), "the packet buffer written is not a [188]byte array")
				return
			}
			// byte 0 = 0x47 stored in the same function
			sync := false
			instrs(fn, func(i2 ssa.Instruction) {
				if st, ok := i2.(*ssa.Store); ok {
					if ia, ok := st.Addr.(*ssa.IndexAddr); ok && ia.X == sl.X {
						if k, ok := evalInt(ia.Index); ok && k == 0 {
							if v, ok := evalInt(st.Val); ok && v == 0x47 {
								sync = true
							}
						}
					}
				}
			})
			c.Decide(sync, key, p.InstrPos(ins), "whole [188]byte packet with sync byte", "the packet's first byte is not set to the sync byte 0x47")
		})
	}
	c.Floor("writes to the TS sink", n, 2)
}

func ruleCCOnce(c *Ctx) {
	p := c.P
	fn := p.Func("av/format/mpegts", "(*Writer).WriteMpegtsFrame")
	wf := p.FieldVar("av/format/mpegts", "Writer", "w")
	if fn == nil || wf == nil {
		c.Lost("mpegts.Writer.WriteMpegtsFrame", "not found")
		return
	}
	c.touched(fname(fn))
	// the counter pointer: phi(&w.videoCC, &w.audioCC) selected by frame.Pid == tsAudioPid
	apid, _ := pkgConst(p, "av/format/mpegts", "tsAudioPid")
	var ccPhi *ssa.Phi
	instrs(fn, func(ins ssa.Instruction) {
		ph, ok := ins.(*ssa.Phi)
		if !ok {
			return
		}
		names := map[string]bool{}
		other := false
		for _, e := range ph.Edges {
			if e == ssa.Value(ph) {
				continue // loop-carried
			}
			if f, _, ok := fieldAddr(e); ok {
				names[f.Name()] = true
			} else {
				other = true
			}
		}
		if names["videoCC"] && names["audioCC"] && len(names) == 2 && !other {
			ccPhi = ph
		}
	})
	if ccPhi == nil {
		c.Bad("cc:per-pid", p.Pos(fn.Pos()), "the continuity counter is not selected between Writer.videoCC and Writer.audioCC")
		return
	}
	// selection condition: the block that assigns audioCC is entered on Pid == tsAudioPid only
	selOK := false
	for i, e := range ccPhi.Edges {
		f, _, _ := fieldAddr(e)
		if f == nil || theProgram.baseFieldName(f) != "audioCC" {
			continue
		}
		pred := ccPhi.Block().Preds[i]
		if len(pred.Preds) == 1 {
			hd := pred.Preds[0]
			// the video counter must be the value on the other (false) edge
			vf, _, _ := fieldAddr(ccPhi.Edges[0])
			for j, pb := range ccPhi.Block().Preds {
				if pb == hd {
					vf, _, _ = fieldAddr(ccPhi.Edges[j])
				}
			}
			if vf == nil || vf.Name() != "videoCC" {
				continue
			}
			if ifi, ok := hd.Instrs[len(hd.Instrs)-1].(*ssa.If); ok && hd.Succs[0] == pred {
				if b, ok := ifi.Cond.(*ssa.BinOp); ok && b.Op == token.EQL {
					if pf, _, ok := fieldLoad(b.X); ok && pf.Name() == "Pid" {
						if k, ok := evalInt(b.Y); ok && k == apid {
							selOK = true
						}
					}
				}
			}
		}
	}
	c.Decide(selOK, "cc:per-pid", p.InstrPos(ccPhi), "audio counter iff Pid == tsAudioPid, else video counter", "the audio continuity counter is not selected exactly when frame.Pid == tsAudioPid: packets of one PID would share/skip counter values")
	isInc := func(ins ssa.Instruction) bool {
		st, ok := ins.(*ssa.Store)
		if !ok || st.Addr != ssa.Value(ccPhi) {
			return false
		}
		b, ok := st.Val.(*ssa.BinOp)
		if !ok || b.Op != token.ADD {
			return false
		}
		k, ok := evalInt(b.Y)
		return ok && k == 1
	}
	isWrite := func(ins ssa.Instruction) bool {
		cc := callCommon(ins)
		if cc == nil || !cc.IsInvoke() || cc.Method.Name() != "Write" {
			return false
		}
		f, _, ok := fieldLoad(cc.Value)
		return ok && f == wf
	}
	otherCCStore := false
	instrs(fn, func(ins ssa.Instruction) {
		if st, ok := ins.(*ssa.Store); ok && !isInc(ins) {
			if st.Addr == ssa.Value(ccPhi) {
				otherCCStore = true
			}
			if f, _, ok := fieldAddr(st.Addr); ok && (theProgram.baseFieldName(f) == "videoCC" || theProgram.baseFieldName(f) == "audioCC") {
				otherCCStore = true
			}
		}
	})
	c.Decide(!otherCCStore, "cc:only-incremented", p.Pos(fn.Pos()), "counters change only by +1", "a continuity counter is assigned other than by the per-packet increment")
	r := &PathRule[int8]{Fn: fn, Init: []int8{0},
		Transfer: func(s int8, ins ssa.Instruction) []int8 {
			if isInc(ins) {
				if s < 2 {
					s++
				}
				return []int8{s}
			}
			if isWrite(ins) {
				if s == 1 {
					return []int8{0}
				}
				return []int8{3} // write without exactly one increment
			}
			return nil
		}}
	res := RunPath(r)
	c.paths += res.N
	ok := true
	res.Visit(func(ins ssa.Instruction, s int8) {
		if isWrite(ins) && s != 1 {
			ok = false
			c.Bad("cc:one-increment-per-packet", p.InstrPos(ins), fmt.Sprintf("a TS packet is written after %d increments of its continuity counter (must be exactly 1)", s))
		}
	})
	for ret, sts := range res.Exits() {
		for _, s := range sts {
			if s == 1 || s == 2 {
				ok = false
				c.Bad("cc:one-increment-per-packet", p.InstrPos(ret), "a path increments the continuity counter and returns without writing the packet: the next packet of this PID shows a discontinuity")
			}
		}
	}
	if ok {
		c.OK("cc:one-increment-per-packet", p.Pos(fn.Pos()), fmt.Sprintf("exactly one increment before each packet write (%d path states)", res.N))
	}
	// mask 0x0f into byte 3
	maskOK := false
	instrs(fn, func(ins ssa.Instruction) {
		st, ok := ins.(*ssa.Store)
		if !ok {
			return
		}
		ia, ok := st.Addr.(*ssa.IndexAddr)
		if !ok {
			return
		}
		if k, ok := evalInt(ia.Index); !ok || k != 3 {
			return
		}
		found := false
		walkDeps(st.Val, func(x ssa.Value) bool {
			if b, ok := x.(*ssa.BinOp); ok && b.Op == token.AND {
				if m, ok := evalInt(b.Y); ok && m == 0x0f {
					if u, ok := b.X.(*ssa.UnOp); ok && u.X == ssa.Value(ccPhi) {
						found = true
					}
				}
			}
			return true
		})
		if found {
			maskOK = true
		}
	})
	c.Decide(maskOK, "cc:modulo-16", p.Pos(fn.Pos()), "byte 3 carries counter & 0x0f", "byte 3 of the packet does not carry the selected counter masked with 0x0f")
}

func ruleTSPacketizerFields(c *Ctx) {
	p := c.P
	pk := modRel("av/format/mpegts")
	for _, sp := range []struct {
		typ       string
		pid, sid  int64
		dtsSource string
	}{{"h264Packetizer", 256, 0xe0, "Dts"}, {"aacPacketizer", 257, 0xc0, "Pts"}} {
		fn := p.Func("av/format/mpegts", "(*"+sp.typ+").Packetize")
		if fn == nil {
			c.Lost("mpegts."+sp.typ+".Packetize", "not found")
			continue
		}
		c.touched(fname(fn))
		frame := fn.Params[1]
		key := func(s string) string { return "ts-" + s + ":" + sp.typ }
		get := func(field string) *ssa.Store {
			sts := storesToField(fn, pk, "Frame", field)
			if len(sts) != 1 {
				c.Bad(key(field), p.Pos(fn.Pos()), fmt.Sprintf("Frame.%s is assigned %d times", field, len(sts)))
				return nil
			}
			return sts[0]
		}
		if st := get("Payload"); st != nil {
			f, base, ok := fieldLoad(st.Val)
			c.Decide(ok && theProgram.baseFieldName(f) == "Payload" && origin(base) == frame, key("payload"), p.InstrPos(st), "payload is the source frame's", "TS frame payload is not the source frame's payload")
		}
		if st := get("Pid"); st != nil {
			k, ok := evalInt(st.Val)
			c.Decide(ok && k == sp.pid, key("pid"), p.InstrPos(st), "fixed PID", fmt.Sprintf("PID %d, expected %d", k, sp.pid))
		}
		if st := get("StreamID"); st != nil {
			k, ok := evalInt(st.Val)
			c.Decide(ok && k == sp.sid, key("streamid"), p.InstrPos(st), "stream id constant", fmt.Sprintf("stream id %#x, expected %#x", k, sp.sid))
		}
		is90k := func(v ssa.Value, field string) bool {
			mul, div := false, false
			walkDeps(v, func(x ssa.Value) bool {
				if b, ok := x.(*ssa.BinOp); ok {
					if k, ok := evalInt(b.Y); ok {
						if b.Op == token.MUL && k == 90000 {
							mul = true
						}
						if b.Op == token.QUO && k == 1000000000 {
							div = true
						}
					}
				}
				return true
			})
			other := "Pts"
			if field == "Pts" {
				other = "Dts"
			}
			return mul && div && dependsOnField(v, field) && !dependsOnField(v, other)
		}
		if st := get("Pts"); st != nil {
			c.Decide(is90k(st.Val, "Pts"), key("pts"), p.InstrPos(st), "Pts = frame.Pts in 90 kHz", "TS Pts is not frame.Pts*90000/Second")
		}
		if st := get("Dts"); st != nil {
			c.Decide(is90k(st.Val, sp.dtsSource), key("dts"), p.InstrPos(st), "Dts = frame."+sp.dtsSource+" in 90 kHz", "TS Dts is not frame."+sp.dtsSource+"*90000/Second")
		}
		ex, n := countPaths(fn, func(i ssa.Instruction) bool {
			cc := callCommon(i)
			return cc != nil && cc.IsInvoke() && cc.Method.Name() == "WriteMpegtsFrame"
		}, nil)
		c.paths += n
		once := len(ex) > 0
		for _, sts := range ex {
			for _, s := range sts {
				if s.N != 1 {
					once = false
				}
			}
		}
		c.Decide(once, key("written-once"), p.Pos(fn.Pos()), "each frame written once", "a path writes the TS frame zero or several times")
	}
}

func ruleADTSConst(c *Ctx) {
	p := c.P
	n := p.Named("av/codec/aac", "ADTSHeader")
	fn := p.Func("av/codec/aac", "NewADTSHeader")
	if n == nil || fn == nil {
		c.Lost("aac.ADTSHeader/NewADTSHeader", "not found")
		return
	}
	c.touched(fname(fn))
	arr, ok := n.Underlying().(*types.Array)
	c.Decide(ok && arr.Len() == 7, "adts:len", p.Pos(fn.Pos()), "ADTS header is 7 bytes", "ADTSHeader is not a [7]byte")
	// frameLen = payloadSize + 7
	plus := false
	instrs(fn, func(ins ssa.Instruction) {
		if b, ok := ins.(*ssa.BinOp); ok && b.Op == token.ADD && b.X == ssa.Value(fn.Params[3]) {
			if k, ok := evalInt(b.Y); ok && k == 7 {
				plus = true
			}
		}
	})
	c.Decide(plus, "adts:frame-length", p.Pos(fn.Pos()), "frame_length = payload + 7", "frame_length is not payloadSize + 7 (the header's own length): ADTS frames would not chain")
	// literal ff f1 and the packing triples
	stores := map[int64][]ssa.Value{}
	instrs(fn, func(ins ssa.Instruction) {
		if st, ok := ins.(*ssa.Store); ok {
			if ia, ok := st.Addr.(*ssa.IndexAddr); ok {
				if k, ok := evalInt(ia.Index); ok {
					stores[k] = append(stores[k], st.Val)
				}
			}
		}
	})
	lit := func(i, want int64) bool {
		for _, v := range stores[i] {
			if k, ok := evalInt(v); ok && k == want {
				return true
			}
		}
		return false
	}
	c.Decide(lit(0, 0xff) && lit(1, 0xf1), "adts:syncword", p.Pos(fn.Pos()), "syncword ff f1 (MPEG-4, no CRC)", "ADTS bytes 0,1 are not ff f1")
	triple := func(idx int64, op token.Token, sh, mask int64) bool {
		found := false
		for _, v := range stores[idx] {
			walkDeps(v, func(x ssa.Value) bool {
				if b, ok := x.(*ssa.BinOp); ok && b.Op == token.AND {
					if m, ok := evalInt(b.Y); ok && m == mask {
						if s, ok := b.X.(*ssa.BinOp); ok && s.Op == op {
							if k, ok := evalInt(s.Y); ok && k == sh {
								found = true
							}
						}
					}
				}
				return true
			})
		}
		return found
	}
	c.Decide(triple(3, token.SHR, 11, 0x03) && triple(4, token.SHR, 3, 0xff) && triple(5, token.SHL, 5, 0xe0), "adts:length-packing", p.Pos(fn.Pos()), "13-bit frame_length packed into bytes 3,4,5", "frame_length is not packed as (len>>11)&3 | (len>>3)&0xff | (len<<5)&0xe0 into bytes 3..5")
	// reader agrees
	fl := p.Func("av/codec/aac", "ADTSHeader.FrameLength")
	if fl == nil {
		c.Lost("aac.ADTSHeader.FrameLength", "not found")
		return
	}
	want := map[string]bool{"3:&3<<11": false, "4:<<3": false, "5:>>5": false}
	instrs(fl, func(ins ssa.Instruction) {
		b, ok := ins.(*ssa.BinOp)
		if !ok {
			return
		}
		k, isc := evalInt(b.Y)
		if !isc {
			return
		}
		idxOf := func(v ssa.Value) int64 {
			r := int64(-1)
			walkDeps(v, func(x ssa.Value) bool {
				if ix, ok := x.(*ssa.Index); ok {
					if i, ok := evalInt(ix.Index); ok {
						r = i
					}
				}
				if ia, ok := x.(*ssa.IndexAddr); ok {
					if i, ok := evalInt(ia.Index); ok {
						r = i
					}
				}
				return true
			})
			return r
		}
		switch {
		case b.Op == token.SHL && k == 11 && idxOf(b.X) == 3:
			want["3:&3<<11"] = true
		case b.Op == token.SHL && k == 3 && idxOf(b.X) == 4:
			want["4:<<3"] = true
		case b.Op == token.SHR && k == 5 && idxOf(b.X) == 5:
			want["5:>>5"] = true
		}
	})
	all := true
	for _, v := range want {
		all = all && v
	}
	c.Decide(all, "adts:reader-agrees", p.Pos(fl.Pos()), "FrameLength() unpacks the same bit positions", "ADTSHeader.FrameLength() does not unpack bytes 3,4,5 with shifts 11,3,5")
}

func ruleAVCPrefix(c *Ctx) {
	p := c.P
	fn := p.Func("av/format/mpegts", "(*Frame).prepareAvcHeader")
	if fn == nil {
		c.Lost("mpegts.Frame.prepareAvcHeader", "not found")
		return
	}
	c.touched(fname(fn))
	idr, _ := pkgConst(p, "av/codec/h264", "NalIdrSlice")
	// AUD literal: an alloc [6]byte with stores
	var aud []int64
	instrs(fn, func(ins ssa.Instruction) {
		al, ok := ins.(*ssa.Alloc)
		if !ok {
			return
		}
		pt, ok := al.Type().Underlying().(*types.Pointer)
		if !ok {
			return
		}
		arr, ok := pt.Elem().Underlying().(*types.Array)
		if !ok || arr.Len() != 6 {
			return
		}
		vals := make([]int64, 6)
		for _, r := range referrersOf(al) {
			if ia, ok := r.(*ssa.IndexAddr); ok {
				i, _ := evalInt(ia.Index)
				for _, r2 := range referrersOf(ia) {
					if st, ok := r2.(*ssa.Store); ok {
						vals[i], _ = evalInt(st.Val)
					}
				}
			}
		}
		aud = vals
	})
	want := []int64{0, 0, 0, 1, 9, 0xf0}
	okAud := len(aud) == 6
	for i := range want {
		okAud = okAud && aud[i] == want[i]
	}
	c.Decide(okAud, "avc:aud-literal", p.Pos(fn.Pos()), "AUD = 00 00 00 01 09 f0", fmt.Sprintf("access-unit-delimiter literal is %v", aud))
	// appends of the sps/pps parameters only on the IDR edge
	type st struct{ IDR int8 }
	isIdrCmp := func(cond ssa.Value) bool {
		b, ok := cond.(*ssa.BinOp)
		if !ok || b.Op != token.EQL {
			return false
		}
		k, ok := evalInt(b.X)
		if !ok {
			k, ok = evalInt(b.Y)
		}
		return ok && k == idr
	}
	r := &PathRule[st]{Fn: fn, Init: []st{{}},
		Branch: func(s st, cond ssa.Value, taken bool) (st, bool) {
			if isIdrCmp(cond) {
				// several comparisons against IDR exist (AUD test: slice||idr||sei); track the last one
				if taken {
					s.IDR = 1
				} else {
					s.IDR = 2
				}
			}
			return s, true
		}}
	res := RunPath(r)
	c.paths += res.N
	ok := true
	nApp := 0
	res.Visit(func(ins ssa.Instruction, s st) {
		call, isCall := ins.(*ssa.Call)
		if !isCall || calleeName(&call.Call) != "builtin.append" || len(call.Call.Args) < 2 {
			return
		}
		src := origin(call.Call.Args[1])
		if par, isPar := src.(*ssa.Parameter); isPar && (par.Name() == "sps" || par.Name() == "pps") {
			nApp++
			if s.IDR != 1 {
				ok = false
				c.Bad("avc:params-only-before-idr", p.InstrPos(ins), "SPS/PPS are appended on a path that did not establish nal_unit_type == NalIdrSlice")
			}
		}
	})
	if nApp < 2 {
		c.Bad("avc:params-before-idr", p.Pos(fn.Pos()), "SPS and PPS are not both inserted before IDR slices: segments would not be independently decodable")
	} else if ok {
		c.OK("avc:params-only-before-idr", p.Pos(fn.Pos()), "SPS/PPS inserted exactly on the IDR edge")
	}
	_ = strings.TrimSpace
}
