package main

import (
	"crypto/sha1"
	"encoding/hex"
	"encoding/json"
	"fmt"
	"os"
	"path/filepath"
	"sort"
	"strings"
	"time"
)

// Obligation is one decided (or undecided) instance of a rule.
// Key is rule:construct, where construct is a symbol path (function, field,
// call edge) and never a line number.
type Obligation struct {
	Property   string   `json:"property"`
	Rule       string   `json:"rule"`
	Key        string   `json:"key"`
	Status     string   `json:"status"` // discharged | violated | undecided | anchor-lost | vacuous
	Pos        string   `json:"pos,omitempty"`
	Msg        string   `json:"msg,omitempty"`
	Path       []string `json:"path,omitempty"`
	Nontrivial bool     `json:"nontrivial"`
}

// RuleDoc describes a rule for evidence / diagnostics.
type RuleDoc struct {
	Name string
	Text string
	Run  func(c *Ctx)
	// Thorough marks rules that only run in the thorough tier.
	Thorough bool
}

// Ctx is the per-property run context.
type Ctx struct {
	P        *Program
	Prop     string
	Tier     string
	rule     *RuleDoc
	Obs      []*Obligation
	funcs    map[string]bool
	sites    int
	paths    int
	instByRu map[string]int
	notes    []string
}

func newCtx(p *Program, prop, tier string) *Ctx {
	return &Ctx{P: p, Prop: prop, Tier: tier, funcs: map[string]bool{}, instByRu: map[string]int{}}
}

func (c *Ctx) add(status, construct, pos, msg string, nontrivial bool, path []string) *Obligation {
	o := &Obligation{Property: c.Prop, Rule: c.rule.Name, Key: c.rule.Name + ":" + construct,
		Status: status, Pos: pos, Msg: msg, Nontrivial: nontrivial, Path: path}
	c.Obs = append(c.Obs, o)
	c.instByRu[c.rule.Name]++
	return o
}

// OK records a discharged obligation.
func (c *Ctx) OK(construct, pos, msg string) { c.add("discharged", construct, pos, msg, true, nil) }

// Bad records a violated obligation.
func (c *Ctx) Bad(construct, pos, msg string, path ...string) {
	key := c.rule.Name + ":" + construct
	for _, o := range c.Obs {
		if o.Key == key && o.Pos == pos && o.Status == "violated" {
			return // same construct at the same position already reported
		}
	}
	c.add("violated", construct, pos, msg, true, path)
}

// Undecided records an obligation the rule could not decide (fails the check).
func (c *Ctx) Undecided(construct, pos, msg string) {
	c.add("undecided", construct, pos, msg, true, nil)
}

// Lost records an anchor that could not be resolved (fails the check).
func (c *Ctx) Lost(construct, msg string) { c.add("anchor-lost", construct, "", msg, false, nil) }

// Decide is OK when cond else Bad.
func (c *Ctx) Decide(cond bool, construct, pos, okmsg, badmsg string) {
	if cond {
		c.OK(construct, pos, okmsg)
	} else {
		c.Bad(construct, pos, badmsg)
	}
}

// Floor fails the rule as vacuous if it matched fewer instances than
// confirmed by hand on the pinned tree.
func (c *Ctx) Floor(what string, got, want int) {
	if got < want {
		c.add("vacuous", "floor:"+what, "", fmt.Sprintf("rule matched %d instances of %s, at least %d were confirmed by hand on the pinned tree", got, what, want), false, nil)
	}
}

func (c *Ctx) Note(format string, a ...interface{}) {
	c.notes = append(c.notes, fmt.Sprintf(format, a...))
}

func (c *Ctx) touched(fn string) { c.funcs[fn] = true }

// ---------------------------------------------------------------- findings

type Finding struct {
	Property string `json:"property"`
	Key      string `json:"key"`
	Status   string `json:"status"` // known | fixed
	Commit   string `json:"commit,omitempty"`
	What     string `json:"what"`
}

func loadFindings(path string) ([]Finding, error) {
	b, err := os.ReadFile(path)
	if err != nil {
		if os.IsNotExist(err) {
			return nil, nil
		}
		return nil, err
	}
	var doc struct {
		Findings []Finding `json:"findings"`
	}
	if err := json.Unmarshal(b, &doc); err != nil {
		return nil, err
	}
	return doc.Findings, nil
}

// ---------------------------------------------------------------- output

type runResult struct {
	violations int
	known      int
}

func keyHash(k string) string {
	h := sha1.Sum([]byte(k))
	return hex.EncodeToString(h[:])[:10]
}

func sanitize(s string) string {
	r := strings.NewReplacer("/", "_", " ", "_", "*", "", "(", "", ")", "", ":", "-", ">", "", "→", "-")
	s = r.Replace(s)
	if len(s) > 60 {
		s = s[:60]
	}
	return s
}

// report prints the verdict lines, writes replay files and the evidence file.
func report(c *Ctx, rules []*RuleDoc, verifDir string, findings []Finding, start time.Time, seed int, explanation string, notDecided string, selftest map[string]interface{}) int {
	known := map[string]Finding{}
	for _, f := range findings {
		if f.Property == c.Prop && f.Status == "known" {
			known[f.Key] = f
		}
	}
	sort.SliceStable(c.Obs, func(i, j int) bool { return c.Obs[i].Key < c.Obs[j].Key })
	viol := 0
	nknown := 0
	discharged := 0
	distinct := map[string]bool{}
	os.MkdirAll(filepath.Join(verifDir, "violations"), 0o755)
	seenKey := map[string]bool{}
	for _, o := range c.Obs {
		if o.Nontrivial {
			distinct[o.Key] = true
		}
		if o.Status == "discharged" {
			discharged++
			continue
		}
		if f, ok := known[o.Key]; ok && o.Status == "violated" {
			if !seenKey[o.Key] {
				fmt.Printf("KNOWN-FINDING: property=%s %s %s\n", c.Prop, o.Key, f.What)
			}
			seenKey[o.Key] = true
			nknown++
			continue
		}
		viol++
		rp := filepath.Join(verifDir, "violations", fmt.Sprintf("%s-%s-%s.json", c.Prop, sanitize(o.Key), keyHash(o.Key)))
		rb, _ := json.MarshalIndent(map[string]interface{}{
			"property": c.Prop, "rule": o.Rule, "key": o.Key, "status": o.Status, "pos": o.Pos,
			"msg": o.Msg, "path": o.Path, "rule_text": ruleText(rules, o.Rule),
			"replay": fmt.Sprintf("%s/bin/ipcheck -property %s -only %q", verifDir, c.Prop, o.Key),
		}, "", " ")
		os.WriteFile(rp, rb, 0o644)
		fmt.Printf("  [%s] %s\n      at %s\n      %s\n", o.Status, o.Key, o.Pos, o.Msg)
		for _, p := range o.Path {
			fmt.Printf("        | %s\n", p)
		}
		fmt.Printf("VIOLATION property=%s replay=%s\n", c.Prop, rp)
	}
	// evidence
	samples := []interface{}{}
	for i, o := range c.Obs {
		if i < 400 {
			samples = append(samples, map[string]string{"key": o.Key, "status": o.Status, "pos": o.Pos, "msg": o.Msg})
		}
	}
	ruleList := []map[string]interface{}{}
	for _, r := range rules {
		ruleList = append(ruleList, map[string]interface{}{"rule": r.Name, "text": r.Text, "instances": c.instByRu[r.Name], "thorough_only": r.Thorough})
	}
	fnames := make([]string, 0, len(c.funcs))
	for f := range c.funcs {
		fnames = append(fnames, f)
	}
	sort.Strings(fnames)
	cov := map[string]interface{}{
		"explanation":         explanation,
		"not_decided":         notDecided,
		"obligations":         len(c.Obs),
		"discharged":          discharged,
		"known_findings":      nknown,
		"evaluations":         len(c.Obs),
		"distinct_nontrivial": len(distinct),
		"rule":                "one obligation per rule instance (rule:construct); non-trivial = decided by analysing the SSA/CFG/call graph/constant tables of the named construct, not by anchor resolution alone; distinct = distinct keys",
		"samples":             samples,
		"rules":               ruleList,
		"functions_analysed":  len(fnames),
		"functions":           fnames,
		"call_sites":          c.sites,
		"paths_or_states":     c.paths,
		"packages_loaded":     c.P.NPkgs,
		"module_functions":    c.P.NModFuncs,
		"checker_cmd":         fmt.Sprintf("%s/bin/ipcheck -property %s -tier %s", verifDir, c.Prop, c.Tier),
		"trusted_base":        trustedBase,
		"exhaustive":          true,
		"notes":               c.notes,
	}
	if selftest != nil {
		cov["selftest"] = selftest
	}
	ev := map[string]interface{}{
		"property_id": c.Prop, "tier": c.Tier, "seed": seed, "level": "other",
		"coverage": cov, "assumptions": trustedBase,
		"wall_s": time.Since(start).Seconds(), "violations": viol,
	}
	os.MkdirAll(filepath.Join(verifDir, "evidence"), 0o755)
	eb, _ := json.MarshalIndent(ev, "", " ")
	if err := os.WriteFile(filepath.Join(verifDir, "evidence", c.Prop+".json"), eb, 0o644); err != nil {
		fmt.Fprintln(os.Stderr, "cannot write evidence:", err)
		return 2
	}
	fmt.Printf("property=%s tier=%s obligations=%d discharged=%d known=%d violations=%d functions=%d wall=%.1fs\n",
		c.Prop, c.Tier, len(c.Obs), discharged, nknown, viol, len(fnames), time.Since(start).Seconds())
	if viol > 0 {
		return 1
	}
	return 0
}

func ruleText(rules []*RuleDoc, name string) string {
	for _, r := range rules {
		if r.Name == name {
			return r.Text
		}
	}
	return ""
}

var trustedBase = []string{
	"Go type checker and go/ssa (x/tools v0.29.0) build a faithful SSA/CFG of /repo's current source",
	"VTA call graph is sound for non-reflective code (repo uses no reflect/unsafe outside utils/murmur)",
	"sync.Mutex/RWMutex give mutual exclusion; sync.Map operations are individually atomic; sync.Cond.Signal wakes only goroutines already waiting",
	"cnotch/queue.SyncQueue as read from its source: Push/Pop/Len/Reset under cond.L, Signal/Broadcast without it",
	"io.Writer implementations do not retain their argument; net/http recovers handler panics per connection; cnotch/scheduler recovers job panics",
	"apirouter WrapHandler/ChainInterceptor call the handler only if every PreHandle returned true",
	"os.Rename is atomic on POSIX file systems",
}

// anyBad reports whether the current rule has recorded a violated obligation.
func (c *Ctx) anyBad(rule string) bool {
	for _, o := range c.Obs {
		if o.Rule == rule && o.Status == "violated" {
			return true
		}
	}
	return false
}
