#!/bin/sh
set -eu
export GOFLAGS=-mod=mod GOPROXY=off GOSUMDB=off GOTOOLCHAIN=local
unset GOWORK
DIR=$(cd "$(dirname "$0")" && pwd)
mkdir -p "$DIR/bin" "$DIR/evidence" "$DIR/violations"
cd "$DIR/checker" && go build -o "$DIR/bin/ipcheck" .
echo "built $DIR/bin/ipcheck"
