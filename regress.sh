#!/bin/sh
# Regression over the committed corpora: every seeded breaking change must be reported by its
# property's check, every behaviour-preserving refactoring must leave its property's check silent.
# usage: regress.sh [seeded|neutral|all]   (scratch worktrees under /tmp, removed afterwards)
cd /verif
W=${1:-all}
R=$(mktemp -d /tmp/regress.XXXXXX)
if [ "$W" = seeded ] || [ "$W" = all ]; then
  for d in seeded/C*/m*; do id=$(echo $d | cut -d/ -f2); k=$(basename $d); echo "$id /verif/$d/patch.diff $R/s.$id.$k"; done | xargs -P 6 -L 1 sh -c './seedeval.sh $0 $1 > $2.txt 2>&1'
  echo "seeded changes NOT reported by their own property:"; for f in $R/s.*.txt; do grep -q "exit=1" $f || echo "  $(basename $f .txt)"; done
fi
if [ "$W" = neutral ] || [ "$W" = all ]; then
  for d in neutral/C*/n*; do id=$(echo $d | cut -d/ -f2); k=$(basename $d); echo "$id /verif/$d/patch.diff $R/n.$id.$k"; done | xargs -P 6 -L 1 sh -c './seedeval.sh $0 $1 > $2.txt 2>&1'
  echo "neutral refactorings that raise an alarm under their own property:"; for f in $R/n.*.txt; do grep -q "exit=0" $f || echo "  $(basename $f .txt): $(grep -o '\] R-[A-Z0-9-]*:[^ ]*' $f | sort -u | tr '\n' ' ' | cut -c1-200)"; done
fi
rm -rf $R
