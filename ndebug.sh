#!/bin/sh
# usage: ndebug.sh <id> <patch> : applies patch in scratch worktree, runs check with dump of normalised files
export GOFLAGS=-mod=mod GOPROXY=off GOSUMDB=off GOTOOLCHAIN=local; unset GOWORK
W=$(mktemp -d /tmp/ndbg.XXXXXX); rmdir $W
git -C /repo worktree add -q --detach $W HEAD
git -C $W apply $2 || { git -C /repo worktree remove --force $W; exit 3; }
O=$(mktemp -d /tmp/ndbgo.XXXXXX); cp /verif/known_findings.json /verif/baseline_funcs.txt $O/
rm -rf /tmp/ndump; IPCHECK_DUMP=/tmp/ndump ${IPCHECK:-/verif/bin/ipcheck} -property $1 -root $W -verif $O 2>&1 | grep -v "^VIOLATION" | grep -A3 "violated\|undecided\|anchor-lost\|vacuous" | cut -c1-600
python3 -c "
import json
e=json.load(open('$O/evidence/$1.json'))
print([n for n in json.dumps(e).split('\"') if 'normalised tree' in n][:1])
" 2>/dev/null | cut -c1-900
git -C /repo worktree remove --force $W; rm -rf $O
