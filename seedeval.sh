#!/bin/sh
# usage: seedeval.sh <property-id> <patch.diff> [all]
# Applies a seeded change in a scratch worktree of /repo (outside /repo and /verif),
# runs the property's check (or all checks) against it, removes the worktree.
export GOFLAGS=-mod=mod GOPROXY=off GOSUMDB=off GOTOOLCHAIN=local; unset GOWORK
ID=$1; PATCH=$2; ALL=${3:-}
WT=$(mktemp -d /tmp/seedeval.XXXXXX); rmdir "$WT"
git -C /repo worktree add -q --detach "$WT" HEAD || exit 2
if ! git -C "$WT" apply "$PATCH"; then echo "PATCH-DOES-NOT-APPLY"; git -C /repo worktree remove --force "$WT"; exit 3; fi
OUT=$(mktemp -d /tmp/seedeval-out.XXXXXX)
cp /verif/known_findings.json /verif/baseline_funcs.txt "$OUT/"
if [ -n "$ALL" ]; then IDS=${IDS:-$(seq -f "C%02g" 1 20)}; else IDS=$ID; fi
for P in $IDS; do
  ${IPCHECK:-/verif/bin/ipcheck} -property $P -root "$WT" -verif "$OUT" > "$OUT/$P.log" 2>&1
  rc=$?
  echo "== $P exit=$rc $(grep -c '^VIOLATION' "$OUT/$P.log") violations"
  grep -E '^\s+\[(violated|undecided|anchor-lost|vacuous)\]' "$OUT/$P.log" | sed 's/^/   /' | head -8
done
git -C /repo worktree remove --force "$WT"; rm -rf "$OUT"
