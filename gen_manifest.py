#!/usr/bin/env python3
"""Regenerates MANIFEST.json from the table below (kept in one place so that
claims, not_applicable and DESIGN stay in step)."""
import json, subprocess, os

CLAIMS = {
 # id: (level text, technique, design_ref)
 "C01": ("Structural necessary conditions of exactly-once/in-order/unmodified fan-out decided on every path and call site of the current source: single producer path and single consumer per queue, same object broadcast, push-exactly-once path rule, no store into published packets, adapters write the packet they were given. Also: the join lock makes cache+broadcast atomic with snapshot+register, every connection write is under the session write lock, consumer ids come from the atomic increment result, and no element of any array/slice field of a published packet is written. Does not decide delivery histories or wire bytes.",
         "custom SSA path-state + call-graph ownership analysis (go/ssa, VTA)", "DESIGN.md §3 C01"),

 "C02": ("Structural necessary conditions of gap-free, repeat-free joining decided on every path: one Stream mutex held across cache+broadcast and across snapshot+register; every PushTo replays all non-nil parameter sets in order before the GOP (FLV copies restamped to the first GOP tag); the three CachePack siblings obey one reset/append/flag discipline under their lock. Also: published tags are never restamped in place, key-frame constants agree across siblings, the restamp guard admits a one-tag GOP, fragmentation units are classified only on their start bit. Does not decide classification of every packetisation or timestamp values.",
         "custom SSA lockset + path-state + sibling-agreement analysis", "DESIGN.md §3 C02"),
 "C03": ("Structural necessary conditions of release decided on every path: no lost wake-up on close for all four queue workers, attach cannot survive a close, Stream.close closes every closable field, connection counters are paired by a deferred Release, count updated atomically with the map, every registered consumer type's Close closes its connection. Also: the map lookup deciding a count update is inside the same critical section, Unregist closes its stream on every path, consumer ids are unique, write errors of a closed stream reach the publisher loop. Does not decide promptness or goroutine census.",
         "custom SSA path-state + lockset + call-graph analysis", "DESIGN.md §3 C03"),
 "C04": ("Structural necessary conditions of consumer isolation: publisher call graph reaches no blocking operation nor any Consume; consume loop has recover->detach->close; discarding toggles only on key-frame edges under the right backlog comparison; limit constant 1000. Also: the cleanup detaches before it closes, no consumer code runs under the join lock, fragmentation units are key-frame edges only on their start bit. Does not decide the numeric backlog bound.",
         "module-bounded call-graph reachability + SSA path-state", "DESIGN.md §3 C04"),

 "C05": ("Structural necessary conditions of registry consistency decided on every path and call site: canonical keys only, delete-if-same, no Stream.Close while still registered, idle guard reads every consumer set, Regist retires the previous holder, Get returns only registry entries. Also: Unregist closes on every path, the idle guard reads HLS access from a field the constructor assigns, CanonicalPath never bypasses path.Clean and keeps a trailing slash. Does not decide racing registrations or listings at an instant.",
         "custom SSA path-state + dependence + who-may-call analysis", "DESIGN.md §3 C05"),

 "C06": ("Structural necessary conditions of exact depacketisation decided on every path of the FU and aggregation handlers (sibling rules for H.264/H.265): guarded fragment append, sequence-gap reset, emission only at the end bit with cleared state, aggregated units copied verbatim after a size check, one RTP timestamp per packet. Also: the gap check cannot drop a start fragment, the clock anchor is set once, the AAC AU-size field keeps all 13 bits, sequence numbers are compared in 16 bits. Does not decide byte equality or timestamp arithmetic.",
         "custom SSA path-state (typestate) + sibling-agreement analysis", "DESIGN.md §3 C06"),

 "C07": ("Structural necessary conditions of panic containment: every goroutine root that reaches publisher/camera parsing has a recover registered first; per-packet code in the publishing session indexes packet bytes only where the Go compiler's prove pass shows the index in range; converter loops drop a bad item under a per-item recover; parameter-set decoders convert panics to errors; aggregation scans make progress. Also: the recover handlers themselves are panic-free, in-band parameter sets never overwrite the shared metadata. Does not decide correctness of later conversion.",
         "call-graph reachability + SSA dominance + compiler bounds-check-elimination report (no execution)", "DESIGN.md §3 C07"),

 "C08": ("Structural necessary conditions of valid, faithful FLV output: tag framing constants evaluated (11-byte header, size field, PreviousTagSize = 11+len, 9-byte file header), unsigned timestamp rebasing guarded, headers precede media on every path, each packetiser's tag fields derive from the right frame fields, key-frame constants agree across sibling implementations. Also (bit-provenance abstract interpretation): the 11-byte tag header and the video/audio tag body bytes are composed bit for bit as the FLV layout requires and the reader reproduces every field. Does not decide that emitted bytes parse back to the source frames.",
         "constant/table evaluation + bit-provenance abstract interpretation over SSA + dependence + path-state + sibling agreement", "DESIGN.md §3 C08"),

 "C09": ("Structural necessary conditions of valid TS output: the PAT/PMT literal is evaluated completely from source (lengths, PIDs, stream types, CRC-32/MPEG recomputed), every sink write is the table or a whole [188]byte packet with sync byte, exactly one PID-selected continuity-counter increment per packet masked to 4 bits, packetiser frame fields derive from the source frame with the fixed PID/stream-id constants, ADTS length constants agree between writer and reader, SPS/PPS inserted only before IDR. Also (bit-provenance abstract interpretation): PTS/DTS/PCR and TS header bit layouts, PES length guard, ADTS header round trip; stuffing is inserted only when the data is strictly shorter than the body and adds to an existing adaptation field length. Does not decide payload fidelity or stuffing/PTS arithmetic.",
         "constant-table evaluation (incl. CRC recomputation) + bit-provenance abstract interpretation over SSA + path-state + dependence", "DESIGN.md §3 C09"),

 "C10": ("Structural necessary conditions of consistent HLS output: no alias of a pooled buffer escapes (playlist bytes, in-memory segment readers), the segment list is accessed only under its lock, segment cuts are dominated by the key-frame test (one recorded known finding: audio-triggered cut), one window constant for readiness and retention, playlist header fields derive from the listed segments, a closed segment is published or deleted-with-number-reuse. Also: no use of a pooled buffer after Put, forced-cut threshold at least twice the fragment, segment files opened with O_TRUNC, segment storage and lookup by number under the lock. Does not decide sequence arithmetic, durations or byte identity.",
         "pooled-alias escape analysis + lockset + SSA path-state + constant evaluation", "DESIGN.md §3 C10"),

 "C11": ("Structural necessary conditions of authorisation on every entry point: sinks dominated by the right permission check on every RTSP/HTTP/API chain (who-may-reach over the call graph + path-sensitive guard facts), grant-without-check paths decided by configuration only, path checked = path served, WSP data-channel join compared with the control session, rights recompiled from scratch, tokens from crypto/rand, access vs refresh token guards, per-request user. Does not decide digest arithmetic, expiry timing or the matcher language.",
         "call-graph who-may-reach + path-sensitive guard-fact analysis + SSA dependence", "DESIGN.md §3 C11"),

 "C12": ("Structural necessary conditions of one-response-per-request and legal method order: interprocedural response counting with correlated boolean summaries (exactly one on every path), response construction only in newResponse with CSeq/Session, state assignments only in their handlers after success, handlers gated by onPreprocess, complete abstract evaluation of the state gate over status x method against the reference automaton (refusals 455 and pure), teardown releases. Also: the role change (pusher/consumer) is reachable only with the session mode (and TCP transport for RECORD) established, status advances only on the success edge, response write+flush in one lock section. Does not decide transport/SDP validity or header content beyond CSeq/Session.",
         "SSA path-state with interprocedural summaries + finite-domain abstract evaluation", "DESIGN.md §3 C12"),

 "C13": ("Lockset facts over all writers of each shared connection: every writing use holds the owning session's write mutex, response write and flush share one critical section, each WebSocket message is one write of a freshly assembled whole buffer, the buffered connection writes caller data directly only when its buffer is known empty and has no background goroutine. Also: no use of a pooled buffer after it was put back, and no per-session buffer is touched outside the write lock. Does not decide kernel partial-write behaviour.",
         "custom SSA lockset analysis + path-state", "DESIGN.md §3 C13"),

 "C14": ("Structural necessary conditions of exact RTSP framing: wire-sized allocations bounded (16-bit origin or dominating comparison with a constant), header line accumulation bounded, body read errors propagated, the dispatcher reads exactly one unit per call after a peek, packets constructed only by the wire reader, reader and writer agree on the interleaved prefix layout. Also: wire readers never use a bare Read and the dispatcher peeks at most 4 bytes, the interleaved prefix round-trips bit for bit, Content-Length is written iff a body is written (sibling writers), ReadPacket stores the table index as channel. Does not decide round-trip equality or chunking independence.",
         "SSA dominance/bounds-guard analysis + path-state + bit-provenance abstract interpretation + constant evaluation", "DESIGN.md §3 C14"),

 "C15": ("Structural necessary conditions of correct, total parameter parsing: decoders convert panics to errors, every bit-reader result depends on the buffer, emulation-prevention removal precedes parsing, the dimension/frame-rate accessors read every syntax element the standards define them from and the decoders parse those elements from the stream, stream metadata taken from the decoded parameter sets. Also: syntax-structure clauses of the standards decided on the decoder shape - crop-unit table under every chroma format/field coding (bit-provenance evaluation under assumed configuration), sub-layer ordering loop start (VPS/SPS siblings), RPS counts derived, no tautological loop exit, signed arithmetic before subtraction, 64-bit/float rate arithmetic, H.264 high-profile set, ASC explicit-extension truth table and read order, se(v) parity mapping, emulation prevention removed once, ASC decoded on the SDP path, guard/offset agreement of shifted table indices. One known finding (H.265 fixed-rate flag). Does not decide numeric equality with the standards.",
         "SSA data-dependence (interprocedural) + dominance + finite-domain evaluation of branch chains + bit-provenance abstract interpretation + constant-set comparison with the standards", "DESIGN.md §3 C15"),

 "C16": ("PARTIAL: the property itself (language equivalence of the pattern matcher over all pattern/path pairs) is value-level and is NOT decided. Decided are structural necessary conditions around the matcher: push/pull matcher selection by right, grant only on some pattern's match, '*' default only for administrators with an empty right, ';' splitting, case folding on both sides, wildcard literals and their compile-time handling, the two segment-count guards. Also: the pattern loop visits every element, partCount counts every separator.",
         "SSA path-sensitive guard facts + constant evaluation (partial; matcher semantics not decided)", "DESIGN.md §3 C16, §4"),

 "C17": ("Structural necessary conditions of route resolution: canonicalise, refuse directory paths, exact lookup first with return on hit; the scan's candidate is replaced only by a longer matching pattern (iteration-order independent maximisation); lookups write only to copies and return copies; URL join offsets under the URL-ends-in-slash test; result pattern = requested path; pathMatch prefix/equality shape; the factory receives the matched route's fields. Also: CanonicalPath cleans on every path and keeps the trailing slash, Save copies the update on every path. Does not decide the joined URL text for every URL form.",
         "SSA phi/guard pattern analysis + store-site ownership", "DESIGN.md §3 C17"),

 "C18": ("Structural necessary conditions of durable, consistent tables: the persisting function never opens the destination for writing and on every success path writes, syncs, then renames a temporary file over it (crash atomicity decided from the order and targets of the file-system calls on every path, with error nil-ness correlation); table fields accessed only under the table lock; password kept unless asked; keys canonicalised before use; full list flushed and pending lists cleared only after success; default admin only when the file is missing. Does not decide model equality of table contents over histories.",
         "SSA path-state over file-system effects + lockset", "DESIGN.md §3 C18"),

 "C19": ("Complete static evaluation of the multiplexer's prefix tables (every RTSP method listed, OPTIONS in exactly the four RTSP forms, no RTSP entry captures an HTTP request line, overlaps resolved by registration order) and path-state facts on the hand-off (one send per connection after doneSniffing, unmatched connections closed, sniff deadline armed and cleared only when matched). Also: matchers read the sniff window with ReadFull, the sniffer switches to the raw connection only after the replay, a source error is remembered only together with buffered bytes. Does not decide byte-exact replay of sniffed data for every chunking.",
         "constant-table evaluation + SSA path-state", "DESIGN.md §3 C19"),
 "C20": ("Structural necessary conditions of a well-behaved pull: every blocking read of the camera connection dominated by a configured read deadline, Open's failure paths disconnect (deferred closure over the named error result, every step's error stored there, first failure stops), the play goroutine's cleanup releases/unregisters/disconnects on every path and is registered first, authentication retries bounded with a checked final status, factory fails closed, SDP format reads guarded. Also: every handshake step error is tested, the SDP parse error is tested before the session is used, the write error of a closed stream reaches the read loop, a 401 is retried whenever credentials exist, Unregist closes a replaced pulled stream. Does not decide wire behaviour or racing first requests.",
         "SSA dominance + path-state + call-graph cycle check", "DESIGN.md §3 C20"),
}
NA = {
}
ALL = ["C%02d" % i for i in range(1, 21)]
NOT_BUILT = "no static rule built yet for this property in this round (see DESIGN.md §6); not claimed"

checks = []
for pid in ALL:
    if pid in CLAIMS:
        text, tech, ref = CLAIMS[pid]
        checks.append({
            "property_id": pid,
            "quick_cmd": "./run.sh %s quick" % pid,
            "thorough_cmd": "./run.sh %s thorough" % pid,
            "evidence_file": "/verif/evidence/%s.json" % pid,
            "replay_cmd_template": "./bin/ipcheck -replay {path}",
            "engine": "ipcheck",
            "level_claimed": {"category": "other", "text": text, "design_ref": ref},
            "level_note": "Trusted base: Go type checker, go/ssa, VTA call graph (x/tools v0.29.0), summaries of external code listed in DESIGN.md §2.8, and - only when an obligation is not discharged on the tree as written - the normalisation pre-pass of DESIGN.md §10 (a copy of the x/tools inliner plus function-literal flattening; semantics preserving; the evidence file lists every step it took). Decides the named structural clauses only; value-level clauses are listed as not decided in the evidence file.",
            "technique": tech,
        })
na = [{"property_id": p, "reason": NA.get(p, NOT_BUILT)} for p in ALL if p not in CLAIMS]
m = {
 "version": 1,
 "setup_cmd": "./setup.sh",
 "hooks": {"guard": "verif", "enable": "no hooks: the checks analyse source only (packages are loaded with -tags=verif, the repository has no tagged files)",
           "baseline_off_cmd": "cd /repo && go test -vet=off -count=1 ./...", "source_commits": [], "add_only": True},
 "engines": [{"name": "ipcheck", "path": "/verif/checker", "serves_properties": sorted(CLAIMS), "kind_free_text": "repository-specific static analyser over go/packages + go/ssa + VTA call graph; path-state, lockset, reachability, ownership, constant-table and dependence rules"}],
 "checks": checks,
 "not_applicable": na,
 "notes": "Static analysis only; nothing under /repo is executed. Two committed corpora exercise the checks both ways (./regress.sh): seeded/ = 100 independently produced breaking changes (all reported), neutral/ = 80 behaviour-preserving refactorings (none reported). Genuine defects found are either repaired by fix: commits in /repo or listed in known_findings.json. thorough = quick + heavier rules + in-memory mutant self-test of the property's rules.",
}
json.dump(m, open(os.path.join(os.path.dirname(os.path.abspath(__file__)), "MANIFEST.json"), "w"), indent=1)
print("claimed:", sorted(CLAIMS), "n/a:", [x["property_id"] for x in na])
