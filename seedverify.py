#!/usr/bin/env python3
"""Verifies a seeded change myself in a scratch worktree of /repo (outside /repo and /verif):
build, existing tests, demo fails with the change, demo passes without it; then runs the
property's check (and all checks if the property's own check is silent) against it.
usage: seedverify.py <Cxx> <k>   -> prints one JSON line; exit 0 always"""
import json, os, re, subprocess, sys, tempfile, shutil
ENV = dict(os.environ, GOFLAGS='-mod=mod', GOPROXY='off', GOSUMDB='off', GOTOOLCHAIN='local')
ENV.pop('GOWORK', None)
ALWAYS_FAIL = {'github.com/cnotch/ipchub/av/format/flv', 'github.com/cnotch/ipchub/av/format/mpegts', 'github.com/cnotch/ipchub/av/format/rtp'}
FLAKY = {'github.com/cnotch/ipchub/network/socket/listener', 'github.com/cnotch/ipchub/service/wsp', 'github.com/cnotch/ipchub/media'}

def sh(cmd, cwd, timeout=900):
    p = subprocess.run(cmd, cwd=cwd, env=ENV, shell=True, stdout=subprocess.PIPE, stderr=subprocess.STDOUT, timeout=timeout, text=True)
    return p.returncode, p.stdout

def suite(wt):
    rc, out = sh('go test -vet=off -count=1 ./... 2>&1', wt)
    failed = set(re.findall(r'^FAIL\s+(\S+)', out, re.M)) - ALWAYS_FAIL
    for attempt in range(3):
        still = set()
        for pkg in failed:
            if pkg in FLAKY:
                rc2, o2 = sh('go test -vet=off -count=1 %s 2>&1' % pkg, wt)
                if rc2 != 0:
                    still.add(pkg)
            else:
                still.add(pkg)
        failed = still
        if not (failed & FLAKY):
            break
    return sorted(failed)

def main():
    pid, k = sys.argv[1], sys.argv[2]
    src = os.environ.get('SEED_DIR', '/tmp/seed') + '/%s.out/m%s' % (pid, k)
    meta = json.load(open(src + '/meta.json'))
    res = {'id': pid, 'k': k}
    wt = tempfile.mkdtemp(prefix='seedv.')
    os.rmdir(wt)
    subprocess.check_call(['git', '-C', '/repo', 'worktree', 'add', '-q', '--detach', wt, os.environ.get('BASE_REV', 'HEAD')])
    try:
        rc, out = sh('git apply %s/patch.diff' % src, wt)
        res['applies'] = rc == 0
        if rc != 0:
            res['error'] = out[-300:]
            return res
        rc, out = sh('go build ./... 2>&1', wt)
        res['build'] = rc == 0
        res['tests_failing_packages'] = suite(wt)
        res['existing_tests_pass'] = not res['tests_failing_packages']
        # demo placement
        cmd = meta.get('demo_cmd', '')
        readme = ''
        for f in os.listdir(src + '/demo'):
            if f.lower().startswith('readme'):
                readme = open(os.path.join(src, 'demo', f)).read()
        demos = [f for f in os.listdir(src + '/demo') if f.endswith('_test.go') or f.endswith('.go')]
        m = re.search(r'cp\s+\S*?(zz_\w+\.go)\s+(\S+)', cmd) or re.search(r'cp\s+\S*?(zz_\w+\.go)\s+(\S+)', readme)
        dest = None
        if m:
            dest = m.group(2)
            dest = re.sub(r'^/tmp/seed[23]?/C\d\d/', '', dest).strip('/')
        if not dest:
            m2 = re.search(r'(?:into|in|to)\s+`?/tmp/seed[23]?/C\d\d/([\w/]+)', readme) or re.search(r'goes in\s+`?([\w/]+)/?`?', readme)
            dest = m2.group(1).strip('/') if m2 else None
        mrun = re.search(r"-run\s+'?\"?([\w^$|.]+)", cmd) or re.search(r"-run\s+'?\"?([\w^$|.]+)", readme)
        res['demo_dest'] = dest
        res['demo_run'] = mrun.group(1) if mrun else None
        if not dest or not mrun:
            res['error'] = 'cannot parse demo placement'
            return res
        for f in demos:
            shutil.copy(os.path.join(src, 'demo', f), os.path.join(wt, dest, f))
        extra_env = 'IPCHUB_AUTH=true ' if 'IPCHUB_AUTH' in cmd + readme else ''
        demo = "%sgo test -vet=off -count=1 -run '%s' ./%s/ 2>&1" % (extra_env, res['demo_run'], dest)
        res['demo_cmd'] = demo
        rc, out = sh(demo, wt, 600)
        res['demo_fails_with_change'] = rc != 0
        res['demo_out_with'] = out[-400:]
        sh('git apply -R %s/patch.diff' % src, wt)
        rc, out = sh(demo, wt, 600)
        res['demo_passes_without_change'] = rc == 0
        if rc != 0:
            res['demo_out_without'] = out[-400:]
    finally:
        subprocess.call(['git', '-C', '/repo', 'worktree', 'remove', '--force', wt])
    return res

if __name__ == '__main__':
    try:
        r = main()
    except Exception as e:
        r = {'id': sys.argv[1], 'k': sys.argv[2], 'error': repr(e)}
    print(json.dumps(r))
